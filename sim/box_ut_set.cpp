#include "box_impl.hpp"
#include "cappuccino/ut_set.hpp"
namespace sim
{
#define T_OF(K, V, TS) cappuccino::ut_set<K, TS>
SIM_BOX_FACTORY(make_ut_set, Cont::ut_set, T_OF)
} // namespace sim
