#include "box_impl.hpp"
#include "cappuccino/lfu_cache.hpp"
namespace sim
{
#define T_OF(K, V, TS) cappuccino::lfu_cache<K, V, TS>
SIM_BOX_FACTORY(make_lfu, Cont::lfu, T_OF)
} // namespace sim
