// Seams and the seeded cooperative scheduler.
//
// This translation unit is always compiled WITHOUT sanitizer instrumentation
// and uses only raw futexes, __atomic builtins and plain arrays, so that under
// ThreadSanitizer the baton handoff creates no happens-before edge and none of
// the simulator's own bookkeeping can be reported as a race.
#pragma once
#include <cstddef>
#include <cstdint>

namespace sim
{
namespace sched
{
// ----------------------------------------------------------------- seams ----
// Marks the calling thread as living inside the simulation: steady_clock::now()
// returns the virtual clock and random_device returns the seeded stream.
void    sim_thread(bool on);
void    clock_set(int64_t ns);
int64_t clock_get();
void    rd_set(const uint32_t* vals, size_t n); // copies; rewinds the stream
void    rd_rewind();
uint64_t clock_reads();
// Fault: while armed (per_read_ns != 0) the clock moves on by per_read_ns with every read, as a real clock
// does between two reads inside one call; the first read after arming returns the set instant.
void     clock_drift(int64_t per_read_ns);
uint64_t clock_drift_reads();
uint64_t rd_reads();

// ------------------------------------------------------------- scheduler ----
constexpr int kMaxClients = 8;

enum EvKind : uint8_t
{
    EV_INVOKE = 1,
    EV_RETURN,
    EV_LOCK_REQ,
    EV_LOCK_ACQ,
    EV_UNLOCK,
    EV_NOW,
    EV_BLOCKED,
    EV_EPOCH_DONE,
    EV_EPOCH_START,
    EV_FINE, // preemption at a basic-block boundary of instrumented code that holds no lock
};

struct Event
{
    uint32_t seq;
    int8_t   client; // -1 = controller
    uint8_t  kind;
    int16_t  op; // op index within the client's epoch program, -1 if none
    uint16_t epoch;
    uint16_t aux;
};

enum Status
{
    ST_OK = 0,
    ST_DEADLOCK,
    ST_STEP_BUDGET,
};

struct Spec
{
    int            nclients{2};
    int            mode{0}; // 0 = decision list, 1 = explicit client choices, 2 = PCT priorities
    const int32_t* list{nullptr};
    size_t         nlist{0};
    int            stall_client{-1};
    uint32_t       stall_from{0}, stall_len{0};
    int            prio[kMaxClients]{};
    const uint32_t* change_points{nullptr};
    size_t          nchange{0};
    const uint32_t* fine{nullptr}; // ascending counts: yield at the n-th basic block executed outside any lock
    size_t          nfine{0};
    const uint32_t* susp{nullptr}; // ascending ordinals: yield at the n-th execution, without the container's lock,
    size_t          nsusp{0};      // of a basic block that calibration only ever saw executed under that lock
    const uint32_t* shared{nullptr}; // ascending ordinals: yield (forced switch) at the n-th basic block executed
    size_t          nshared{0};      // while the container's lock is held in shared mode only
    const uint32_t* hold{nullptr};   // ascending ordinals: yield (forced switch) at the n-th basic block executed inside a
    size_t          nhold{0};        // call while the container's own lock is held exclusively (and no other mutex)
    uint32_t        relock_stall{0}; // a client that takes the container's lock a second time within one call is
                                     // parked for this many decisions first (0: ordinary lock-request point)
    uint32_t        step_budget{20000};
    const void*     obj_lo{nullptr}; // address range of the container under test:
    const void*     obj_hi{nullptr}; // mutexes inside it are schedule points
};

// Controller side (main thread).
void   begin_run(const Spec& spec);
Status run_epoch(uint16_t epoch, const bool* client_has_work); // returns when every client finished the epoch
void   end_run();                                               // lets clients leave client_wait_epoch with false

// Client side.
bool     client_begin(int id);  // first call of a client thread; parks until given the baton; false = exit
bool     client_epoch_done();   // epoch program finished: yields, parks; true = run the next epoch, false = exit
void     client_leave();        // last call of a client thread
uint16_t current_epoch();
void point_invoke(int op);
void point_return(int op);

// Results.
const Event*   events(size_t* n);
const int32_t* chosen(size_t* n); // the client chosen at every decision (for explicit replay)
uint32_t       preemptions();     // decisions that switched away from a runnable current client
uint32_t       stalls_fired();    // decisions where the stall window excluded a runnable victim
uint32_t       blocked_fired();   // lock requests that found the mutex held
// Calibration: a fixed single-threaded workload run once per process marks the basic blocks of
// the container code that execute while the container's own mutex is held.
void           call_enter(); // the calling thread enters / leaves one call into the container (adapters only)
void           call_leave();
void           calib_begin(const void* obj_lo, const void* obj_hi);
void           calib_end();
uint32_t       calib_locked_blocks();
uint32_t       susp_seen();       // executions of such blocks by a client that did not hold the container's lock
uint32_t       susp_fired();      // preemptions taken there
uint32_t       shared_seen();     // basic blocks executed while holding the container's lock shared
uint32_t       shared_fired();
uint32_t       hold_seen();       // basic blocks executed while holding the container's lock exclusively
uint32_t       hold_fired();
uint32_t       spin_yields();     // forced yields of a client that was busy-waiting inside one call
uint32_t       bad_unlocks();     // releases of the container's lock by a client that did not hold it
uint32_t       relock_fired();    // calls that re-acquired the container's lock and were stalled there
uint32_t       fine_fired();      // basic-block preemptions taken
uint32_t       fine_seen();       // basic blocks executed by clients inside calls while holding no lock
uint64_t       trace_hash();
int            client_of_os_tid(long os_tid); // -1 if the thread is not a client of the last run      // hash of (client, kind) sequence: one value per distinct interleaving
} // namespace sched
} // namespace sim
