#include "box.hpp"

#include <algorithm>
#include <cstdio>
#include <cstdlib>

namespace sim
{
std::vector<Item> effective_items(const Op& op)
{
    std::vector<Item> v = op.items;
    if (form_sorted(op.kind, op.form))
    {
        // map / set forms: first occurrence of a key wins (emplace / insert), order = key order
        std::vector<Item> out;
        for (auto& it : v)
        {
            bool dup = false;
            for (auto& o : out)
                if (o.key == it.key)
                {
                    dup = true;
                    break;
                }
            if (!dup)
                out.push_back(it);
        }
        std::stable_sort(out.begin(), out.end(), [](const Item& a, const Item& b) { return a.key < b.key; });
        return out;
    }
    return v;
}

Result Box::exec(const Op& op)
{
    Result r;
    switch (op.kind)
    {
        case OpKind::insert:
            r.push_back(insert(op.key, op.val, op.allow, op.ttl_ms));
            break;
        case OpKind::insert_range:
            r.push_back((int64_t)insert_range(op.items, op.allow, op.form));
            break;
        case OpKind::erase:
            r.push_back(erase(op.key));
            break;
        case OpKind::erase_range:
            r.push_back((int64_t)erase_range(op.items, op.form));
            break;
        case OpKind::find:
        {
            Found f = find(op.key, op.peek);
            r.push_back(f.hit);
            r.push_back(f.val);
            break;
        }
        case OpKind::find_uc:
        {
            Found f = find_uc(op.key, op.peek);
            r.push_back(f.hit);
            r.push_back(f.val);
            r.push_back((int64_t)f.count);
            break;
        }
        case OpKind::find_range:
            find_range(op.items, op.peek, op.form, r);
            break;
        case OpKind::find_fill:
            find_fill(op.items, op.peek, op.form, r);
            break;
        case OpKind::age:
            r.push_back((int64_t)age());
            break;
        case OpKind::clean:
            r.push_back((int64_t)clean());
            break;
        case OpKind::clear:
            clear();
            break;
        case OpKind::update_ttl:
            update_ttl(op.ttl_ms);
            break;
        case OpKind::size:
            r.push_back((int64_t)size());
            break;
        case OpKind::empty:
            r.push_back(empty());
            break;
        case OpKind::capacity:
            r.push_back((int64_t)capacity());
            break;
        default:
            break;
    }
    return r;
}

bool combo_supported(KeyT k, ValT v)
{
    if (k == KeyT::i && v == ValT::i)
        return true;
    if (k == KeyT::s && v == ValT::s)
        return true;
#ifndef SIM_NO_TRACKED
    if (k == KeyT::c && v == ValT::t)
        return true;
#endif
    return false;
}

std::unique_ptr<Box> make_box(const Config& cfg)
{
    switch (cfg.cont)
    {
        case Cont::lru:
            return make_lru(cfg);
        case Cont::mru:
            return make_mru(cfg);
        case Cont::fifo:
            return make_fifo(cfg);
        case Cont::lfu:
            return make_lfu(cfg);
        case Cont::lfuda:
            return make_lfuda(cfg);
        case Cont::rr:
            return make_rr(cfg);
        case Cont::tlru:
            return make_tlru(cfg);
        case Cont::utlru:
            return make_utlru(cfg);
        case Cont::ut_map:
            return make_ut_map(cfg);
        case Cont::ut_set:
            return make_ut_set(cfg);
        default:
            break;
    }
    return nullptr;
}

// ---------------------------------------------------------------------------
// Tracked registry.  Open addressing table of live addresses; only ever touched
// by the thread that currently holds the simulator's baton (or by the single
// thread of world "seq"), so it needs no synchronisation of its own.
namespace
{
constexpr size_t kSlots = 1u << 16;
const void*      g_tab[kSlots];
int64_t          g_live;
uint64_t         g_constructed, g_bad_destroy, g_bad_construct;
const void*      kTomb = (const void*)1;

size_t slot_of(const void* p) { return (size_t)(((uintptr_t)p >> 3) * 0x9e3779b97f4a7c15ULL >> 48) & (kSlots - 1); }
} // namespace

void tracked_add(const void* p)
{
    ++g_constructed;
    size_t i = slot_of(p), first_free = kSlots;
    for (size_t n = 0; n < kSlots; ++n, i = (i + 1) & (kSlots - 1))
    {
        if (g_tab[i] == p)
        {
            ++g_bad_construct;
            return;
        }
        if (g_tab[i] == kTomb)
        {
            if (first_free == kSlots)
                first_free = i;
            continue;
        }
        if (g_tab[i] == nullptr)
        {
            if (first_free == kSlots)
                first_free = i;
            break;
        }
    }
    if (first_free == kSlots)
    {
        fprintf(stderr, "tracked registry full\n");
        abort();
    }
    g_tab[first_free] = p;
    ++g_live;
}

void tracked_del(const void* p)
{
    size_t i = slot_of(p);
    for (size_t n = 0; n < kSlots; ++n, i = (i + 1) & (kSlots - 1))
    {
        if (g_tab[i] == p)
        {
            g_tab[i] = kTomb;
            --g_live;
            return;
        }
        if (g_tab[i] == nullptr)
            break;
    }
    ++g_bad_destroy;
}

TrackedStats tracked_stats() { return {g_live, g_constructed, g_bad_destroy, g_bad_construct}; }
void         tracked_reset_errors()
{
    g_bad_destroy = g_bad_construct = 0;
    // Re-pack tombstones when nothing is live so that long batches do not degrade.
    if (g_live == 0)
        for (auto& s : g_tab)
            s = nullptr;
}

} // namespace sim
