#include "box.hpp"
#include "sched.hpp"

#include <algorithm>
#include <cstdio>
#include <cstdlib>
#include <thread>

namespace sim
{
std::vector<Item> effective_items(const Op& op)
{
    std::vector<Item> v = op.items;
    if (form_sorted(op.kind, op.form))
    {
        // map / set forms: first occurrence of a key wins (emplace / insert), order = key order
        std::vector<Item> out;
        for (auto& it : v)
        {
            bool dup = false;
            for (auto& o : out)
                if (o.key == it.key)
                {
                    dup = true;
                    break;
                }
            if (!dup)
                out.push_back(it);
        }
        std::stable_sort(out.begin(), out.end(), [](const Item& a, const Item& b) { return a.key < b.key; });
        return out;
    }
    return v;
}

Result Box::exec(const Op& op)
{
    Result r;
    switch (op.kind)
    {
        case OpKind::insert:
            r.push_back(insert(op.key, op.val, op.allow, op.ttl_ms));
            break;
        case OpKind::insert_range:
            r.push_back((int64_t)insert_range(op.items, op.allow, op.form));
            break;
        case OpKind::erase:
            r.push_back(erase(op.key));
            break;
        case OpKind::erase_range:
            r.push_back((int64_t)erase_range(op.items, op.form));
            break;
        case OpKind::find:
        {
            Found f = find(op.key, op.peek);
            r.push_back(f.hit);
            r.push_back(f.val);
            break;
        }
        case OpKind::find_uc:
        {
            Found f = find_uc(op.key, op.peek);
            r.push_back(f.hit);
            r.push_back(f.val);
            r.push_back((int64_t)f.count);
            break;
        }
        case OpKind::find_range:
            find_range(op.items, op.peek, op.form, r);
            break;
        case OpKind::find_fill:
            find_fill(op.items, op.peek, op.form, r);
            break;
        case OpKind::age:
            r.push_back((int64_t)age());
            break;
        case OpKind::clean:
            r.push_back((int64_t)clean());
            break;
        case OpKind::clear:
            clear();
            break;
        case OpKind::update_ttl:
            update_ttl(op.ttl_ms);
            break;
        case OpKind::size:
            r.push_back((int64_t)size());
            break;
        case OpKind::empty:
            r.push_back(empty());
            break;
        case OpKind::capacity:
            r.push_back((int64_t)capacity());
            break;
        default:
            break;
    }
    return r;
}

bool combo_supported(KeyT k, ValT v)
{
    if (k == KeyT::i && v == ValT::i)
        return true;
    if (k == KeyT::s && v == ValT::s)
        return true;
#ifndef SIM_NO_TRACKED
    if (k == KeyT::c && v == ValT::t)
        return true;
#endif
    return false;
}

namespace
{
// Client-thread lifetime as a simulated dimension (world seq): every call into the container is made by a
// newly created thread that ends with the call (thread-per-request callers).  Still one call at a time, so
// the run is as deterministic as on one thread; what changes is that state a container keeps per *thread*
// (thread_local generators, caches) starts afresh with every call.  Only the calls that can change the
// container get a thread of their own (creating a thread under ASan costs ~0.1 ms, and the probes after
// every step are hundreds of lookups); lookups and observers run on the simulator's thread.
struct ThreadPerCallBox final : Box
{
    std::unique_ptr<Box> in;
    explicit ThreadPerCallBox(std::unique_ptr<Box> b) : in(std::move(b)) {}
    ~ThreadPerCallBox() override
    {
        on([&] { in.reset(); });
    }
    template<typename F>
    static void on(F&& f)
    {
        std::thread t([&] {
            sched::sim_thread(true);
            f();
            sched::sim_thread(false);
        });
        t.join();
    }
    bool insert(int key, uint32_t val, int allow, int64_t ttl_ms) override
    {
        bool r = false;
        on([&] { r = in->insert(key, val, allow, ttl_ms); });
        return r;
    }
    size_t insert_range(const std::vector<Item>& items, int allow, int form) override
    {
        size_t r = 0;
        on([&] { r = in->insert_range(items, allow, form); });
        return r;
    }
    bool erase(int key) override
    {
        bool r = false;
        on([&] { r = in->erase(key); });
        return r;
    }
    size_t erase_range(const std::vector<Item>& keys, int form) override
    {
        size_t r = 0;
        on([&] { r = in->erase_range(keys, form); });
        return r;
    }
    Found find(int key, bool peek) override { return in->find(key, peek); }
    void find_range(const std::vector<Item>& keys, bool peek, int form, Result& out) override { in->find_range(keys, peek, form, out); }
    void find_fill(const std::vector<Item>& keys, bool peek, int form, Result& out) override { in->find_fill(keys, peek, form, out); }
    Found find_uc(int key, bool peek) override { return in->find_uc(key, peek); }
    size_t age() override
    {
        size_t r = 0;
        on([&] { r = in->age(); });
        return r;
    }
    size_t clean() override
    {
        size_t r = 0;
        on([&] { r = in->clean(); });
        return r;
    }
    void clear() override
    {
        on([&] { in->clear(); });
    }
    void update_ttl(int64_t ms) override
    {
        on([&] { in->update_ttl(ms); });
    }
    size_t size() override { return in->size(); }
    bool empty() override { return in->empty(); }
    size_t capacity() override { return in->capacity(); }
    const void* obj_addr() const override { return in->obj_addr(); }
    size_t      obj_size() const override { return in->obj_size(); }
};
} // namespace

std::unique_ptr<Box> make_box(const Config& cfg)
{
    if (cfg.fresh_thread)
    {
        Config c       = cfg;
        c.fresh_thread = false;
        return std::make_unique<ThreadPerCallBox>(make_box(c));
    }
    switch (cfg.cont)
    {
        case Cont::lru:
            return make_lru(cfg);
        case Cont::mru:
            return make_mru(cfg);
        case Cont::fifo:
            return make_fifo(cfg);
        case Cont::lfu:
            return make_lfu(cfg);
        case Cont::lfuda:
            return make_lfuda(cfg);
        case Cont::rr:
            return make_rr(cfg);
        case Cont::tlru:
            return make_tlru(cfg);
        case Cont::utlru:
            return make_utlru(cfg);
        case Cont::ut_map:
            return make_ut_map(cfg);
        case Cont::ut_set:
            return make_ut_set(cfg);
        default:
            break;
    }
    return nullptr;
}

// ---------------------------------------------------------------------------
// Tracked registry.  Open addressing table of live addresses; only ever touched
// by the thread that currently holds the simulator's baton (or by the single
// thread of world "seq"), so it needs no synchronisation of its own.
namespace
{
constexpr size_t kSlots = 1u << 16;
const void*      g_tab[kSlots];
int64_t          g_live;
uint64_t         g_constructed, g_bad_destroy, g_bad_construct;
const void*      kTomb = (const void*)1;

size_t slot_of(const void* p) { return (size_t)(((uintptr_t)p >> 3) * 0x9e3779b97f4a7c15ULL >> 48) & (kSlots - 1); }
} // namespace

void tracked_add(const void* p)
{
    ++g_constructed;
    size_t i = slot_of(p), first_free = kSlots;
    for (size_t n = 0; n < kSlots; ++n, i = (i + 1) & (kSlots - 1))
    {
        if (g_tab[i] == p)
        {
            ++g_bad_construct;
            return;
        }
        if (g_tab[i] == kTomb)
        {
            if (first_free == kSlots)
                first_free = i;
            continue;
        }
        if (g_tab[i] == nullptr)
        {
            if (first_free == kSlots)
                first_free = i;
            break;
        }
    }
    if (first_free == kSlots)
    {
        fprintf(stderr, "tracked registry full\n");
        abort();
    }
    g_tab[first_free] = p;
    ++g_live;
}

void tracked_del(const void* p)
{
    size_t i = slot_of(p);
    for (size_t n = 0; n < kSlots; ++n, i = (i + 1) & (kSlots - 1))
    {
        if (g_tab[i] == p)
        {
            g_tab[i] = kTomb;
            --g_live;
            return;
        }
        if (g_tab[i] == nullptr)
            break;
    }
    ++g_bad_destroy;
}

TrackedStats tracked_stats() { return {g_live, g_constructed, g_bad_destroy, g_bad_construct}; }
void         tracked_reset_errors()
{
    g_bad_destroy = g_bad_construct = 0;
    // Re-pack tombstones when nothing is live so that long batches do not degrade.
    if (g_live == 0)
        for (auto& s : g_tab)
            s = nullptr;
}

} // namespace sim
