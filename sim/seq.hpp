// World "seq": one client, virtual time, reference model, twin instances.
#pragma once
#include "common.hpp"

#include <functional>

namespace sim
{
struct Step
{
    int64_t adv_ns{0};
    Op      op;
    bool    splice{false};        // candidate no-effect call: omitted on the bare twin if the model predicts no effect
    bool    probe_nonlive{false}; // after the step also look up the keys the model says are absent
    int64_t drift_ns{0};          // range steps: the clock moves on by this much with every read inside the range call
};

struct SeqPlan
{
    Config                cfg;
    int64_t               clock_start{0};
    std::vector<uint32_t> rd{1u};
    std::vector<Step>     steps;

    js::Value to_json() const;
    bool      from_json(const js::Value& v);
    uint64_t  hash() const { return fnv1a(to_json().dump()); }
    // Makes any plan executable: keys are taken modulo the universe, ops the
    // container does not have are dropped, values are made non-zero.
    void normalize();
};

struct RunStats
{
    std::map<std::string, uint64_t> counters;   // fault kinds fired, probe counters, evaluations per property ("eval.C01")
    std::set<std::string>           nontrivial; // properties whose precondition occurred in this run
    int64_t                         sim_ns{0};  // virtual time covered
    uint64_t                        calls{0};   // real container calls made
    uint64_t                        log_hash{0xcbf29ce484222325ULL}; // hash of every result observed (determinism gate)
    void                            bump(const std::string& k, uint64_t n = 1) { counters[k] += n; }
};

struct SeqOutcome
{
    Violation v;     // the violation reported by this run (see `focus`)
    Violation other; // first violation of another property that was tolerated or cut the run short
    RunStats  st;
};

// Runs the plan against real containers.  `trace` (optional) receives a human
// readable step log for replays.  With a `focus` property only violations of that
// property are reported; others are counted and, where the model can adopt the
// observed state, the run continues so the focus property's checks are still reached.
SeqOutcome run_seq(const SeqPlan& plan, std::string* trace = nullptr, const std::string& focus = "");

// Optional hook called with a short tag right before a call that deserves its own crash class
// ("rr_evict": an rr_cache insert that must evict; "" otherwise).  Used by the forked classifier.
extern void (*g_seq_call_hook)(const char* tag);

// Plan generation -------------------------------------------------------------
struct GenProfile
{
    std::string       prop;   // property the campaign is aimed at ("" = generic)
    std::vector<Cont> conts;  // allowed containers
    int               max_steps{80};
    int               max_capacity{8};
    bool              thorough{false};
};
GenProfile profile_for(const std::string& prop, bool thorough);
SeqPlan    gen_seq_plan(uint64_t run_seed, const GenProfile& prof);

// Shrinking ---------------------------------------------------------------------
// Minimises `plan` while pred(plan) stays true.  Returns the number of candidate executions.
size_t shrink_seq(SeqPlan& plan, const std::function<bool(const SeqPlan&)>& pred, size_t budget);

} // namespace sim
