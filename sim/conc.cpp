// World "conc": real client threads on one thread_safe::yes container, run one
// at a time under the seeded scheduler (sched.cpp).  Oracles:
//   * linearizability against the thread_safe::no instantiation of the same
//     header code, replayed sequentially under the same clock and random seams (C06)
//   * in the TSan build: happens-before race reports with a library frame (C07)
//
// In the TSan build this file is compiled WITHOUT instrumentation: it touches
// data shared with parked clients (results, event log) while they are alive.
#include "conc.hpp"

#include "box.hpp"
#include "sched.hpp"

#include <algorithm>
#include <cstring>
#include <thread>

namespace sim
{
// provided by tsan_hook.cpp in the TSan build
struct RaceRec
{
    char a[200];
    char b[200];
    int  lib_a, lib_b;
    long os_a, os_b;
};
#ifdef SIM_TSAN
size_t         tsan_report_count();
const RaceRec* tsan_reports();
void           tsan_reports_clear();
bool           conc_is_tsan_build() { return true; }
#else
static size_t         tsan_report_count() { return 0; }
static const RaceRec* tsan_reports() { return nullptr; }
static void           tsan_reports_clear() {}
bool                  conc_is_tsan_build() { return false; }
#endif

namespace
{
constexpr int64_t MS = 1000000;

struct Epoch
{
    int64_t                      adv_ns{0};
    std::vector<std::vector<Op>> clients;
};

struct ConcPlan
{
    Config                cfg;
    int64_t               clock_start{0};
    std::vector<uint32_t> rd{1u};
    int                   nclients{2};
    std::vector<Op>       prefill;
    std::vector<Epoch>    epochs;
    int                   mode{0};
    std::vector<int32_t>  list;
    int                   stall_client{-1};
    uint32_t              stall_from{0}, stall_len{0};
    std::vector<int>      prio;
    std::vector<uint32_t> change_points;
    std::vector<uint32_t> fine; // basic-block preemption counts (ascending)
    std::vector<uint32_t> susp; // ordinals of "locked code running unlocked" executions to preempt at
    uint32_t              relock_stall{0};
    std::vector<uint32_t> shared; // ordinals of basic blocks executed under a shared (reader) hold to preempt at
    std::vector<uint32_t> hold;   // ordinals of basic blocks executed under the caller's own exclusive hold to preempt at
    std::string           note; // e.g. the method pair of a matrix plan

    js::Value to_json() const
    {
        auto v = js::Value::object();
        v.set("world", "conc");
        if (!note.empty())
            v.set("note", note);
        v.set("config", cfg.to_json());
        v.set("clock_start", clock_start);
        auto r = js::Value::array();
        for (auto x : rd)
            r.push(js::Value::integer((int64_t)x));
        v.set("rd", std::move(r));
        v.set("nclients", nclients);
        auto pf = js::Value::array();
        for (auto& o : prefill)
            pf.push(o.to_json());
        v.set("prefill", std::move(pf));
        auto es = js::Value::array();
        for (auto& e : epochs)
        {
            auto eo = js::Value::object();
            eo.set("adv_ns", e.adv_ns);
            auto cs = js::Value::array();
            for (auto& c : e.clients)
            {
                auto co = js::Value::array();
                for (auto& o : c)
                    co.push(o.to_json());
                cs.push(std::move(co));
            }
            eo.set("clients", std::move(cs));
            es.push(std::move(eo));
        }
        v.set("epochs", std::move(es));
        auto s = js::Value::object();
        s.set("mode", mode);
        auto l = js::Value::array();
        for (auto x : list)
            l.push(js::Value::integer(x));
        s.set("list", std::move(l));
        if (stall_client >= 0)
        {
            auto st = js::Value::array();
            st.push(js::Value::integer(stall_client)).push(js::Value::integer(stall_from)).push(js::Value::integer(stall_len));
            s.set("stall", std::move(st));
        }
        if (mode == 2)
        {
            auto p = js::Value::array();
            for (auto x : prio)
                p.push(js::Value::integer(x));
            s.set("prio", std::move(p));
            auto c = js::Value::array();
            for (auto x : change_points)
                c.push(js::Value::integer(x));
            s.set("change_points", std::move(c));
        }
        if (!fine.empty())
        {
            auto f = js::Value::array();
            for (auto x : fine)
                f.push(js::Value::integer(x));
            s.set("fine", std::move(f));
        }
        if (!susp.empty())
        {
            auto f = js::Value::array();
            for (auto x : susp)
                f.push(js::Value::integer(x));
            s.set("susp", std::move(f));
        }
        if (relock_stall)
            s.set("relock_stall", relock_stall);
        if (!shared.empty())
        {
            auto f = js::Value::array();
            for (auto x : shared)
                f.push(js::Value::integer(x));
            s.set("shared", std::move(f));
        }
        if (!hold.empty())
        {
            auto f = js::Value::array();
            for (auto x : hold)
                f.push(js::Value::integer(x));
            s.set("hold", std::move(f));
        }
        v.set("sched", std::move(s));
        return v;
    }

    bool from_json(const js::Value& v)
    {
        auto* c = v.get("config");
        if (!c || !cfg.from_json(*c))
            return false;
        cfg.ts      = true;
        note        = v.gets("note");
        clock_start = std::max<int64_t>(0, v.geti("clock_start"));
        rd.clear();
        if (auto* r = v.get("rd"))
            for (auto& x : r->a)
                rd.push_back((uint32_t)x.i);
        if (rd.empty())
            rd.push_back(1);
        nclients = (int)v.geti("nclients", 2);
        prefill.clear();
        if (auto* pf = v.get("prefill"))
            for (auto& o : pf->a)
            {
                Op op;
                if (op.from_json(o))
                    prefill.push_back(op);
            }
        epochs.clear();
        if (auto* es = v.get("epochs"))
            for (auto& eo : es->a)
            {
                Epoch e;
                e.adv_ns = std::max<int64_t>(0, eo.geti("adv_ns"));
                if (auto* cs = eo.get("clients"))
                    for (auto& co : cs->a)
                    {
                        std::vector<Op> ops;
                        for (auto& o : co.a)
                        {
                            Op op;
                            if (op.from_json(o))
                                ops.push_back(op);
                        }
                        e.clients.push_back(std::move(ops));
                    }
                epochs.push_back(std::move(e));
            }
        list.clear();
        prio.clear();
        change_points.clear();
        fine.clear();
        susp.clear();
        shared.clear();
        hold.clear();
        relock_stall = 0;
        stall_client = -1;
        if (auto* s = v.get("sched"))
        {
            mode = (int)s->geti("mode");
            if (auto* l = s->get("list"))
                for (auto& x : l->a)
                    list.push_back((int32_t)x.i);
            if (auto* st = s->get("stall"))
                if (st->a.size() == 3)
                {
                    stall_client = (int)st->a[0].i;
                    stall_from   = (uint32_t)st->a[1].i;
                    stall_len    = (uint32_t)st->a[2].i;
                }
            if (auto* p = s->get("prio"))
                for (auto& x : p->a)
                    prio.push_back((int)x.i);
            if (auto* cp = s->get("change_points"))
                for (auto& x : cp->a)
                    change_points.push_back((uint32_t)x.i);
            if (auto* f = s->get("fine"))
                for (auto& x : f->a)
                    fine.push_back((uint32_t)x.i);
            if (auto* f = s->get("susp"))
                for (auto& x : f->a)
                    susp.push_back((uint32_t)x.i);
            relock_stall = (uint32_t)s->geti("relock_stall");
            if (auto* f = s->get("shared"))
                for (auto& x : f->a)
                    shared.push_back((uint32_t)x.i);
            if (auto* f = s->get("hold"))
                for (auto& x : f->a)
                    hold.push_back((uint32_t)x.i);
        }
        normalize();
        return true;
    }

    // Makes any plan executable (what the shrinker relies on).
    void normalize()
    {
        Traits tr = traits_of(cfg.cont);
        cfg.ts    = true;
        if (!combo_supported(cfg.kt, cfg.vt))
        {
            cfg.kt = KeyT::i;
            cfg.vt = ValT::i;
        }
        int maxc = 0;
        for (auto& e : epochs)
            maxc = std::max<int>(maxc, (int)e.clients.size());
        nclients = std::max(1, std::min(sched::kMaxClients, std::max(nclients, maxc)));
        for (auto& e : epochs)
            e.clients.resize((size_t)nclients);
        int  u   = (int)std::max<uint32_t>(1, cfg.universe);
        auto fix = [&](std::vector<Op>& ops) {
            std::vector<Op> out;
            for (auto& o : ops)
            {
                bool ok = true;
                switch (o.kind)
                {
                    case OpKind::find_uc:
                        ok = tr.has_uc;
                        break;
                    case OpKind::age:
                        ok = tr.has_age;
                        break;
                    case OpKind::clean:
                        ok = tr.has_clean;
                        break;
                    case OpKind::clear:
                        ok = tr.has_clear;
                        break;
                    case OpKind::update_ttl:
                        ok = tr.has_update_ttl;
                        break;
                    case OpKind::capacity:
                        ok = tr.has_capacity;
                        break;
                    default:
                        break;
                }
                if (!ok)
                    continue;
                o.key = ((o.key % u) + u) % u;
                if (o.val == 0)
                    o.val = 1;
                for (auto& it : o.items)
                {
                    it.key = ((it.key % u) + u) % u;
                    if (it.val == 0)
                        it.val = 1;
                }
                if (!tr.has_peek)
                    o.peek = false;
                if (!tr.iter_forms && (o.form == 3 || o.form == 4))
                    o.form = 0;
                if (cfg.cont == Cont::tlru && o.kind == OpKind::insert_range && o.form == 2)
                    o.form = 0;
                if (o.form < 0 || o.form > 6 || (o.form >= 5 && o.kind != OpKind::find_fill))
                    o.form = 0;
                if (o.kind == OpKind::find_range && o.form == 2)
                    o.form = 0;
                if ((o.kind == OpKind::find_fill || o.kind == OpKind::insert_range) && o.form == 4)
                    o.form = 0;
                if (o.kind == OpKind::find_fill && o.form == 1)
                    o.form = 0;
                if (o.kind == OpKind::erase_range && (o.form == 2 || o.form == 4))
                    o.form = 0;
                out.push_back(o);
            }
            ops = std::move(out);
        };
        fix(prefill);
        for (auto& e : epochs)
            for (auto& c : e.clients)
                fix(c);
        if (stall_client >= nclients)
            stall_client = -1;
        prio.resize((size_t)nclients, 0);
        std::sort(fine.begin(), fine.end());
        fine.erase(std::unique(fine.begin(), fine.end()), fine.end());
        std::sort(susp.begin(), susp.end());
        susp.erase(std::unique(susp.begin(), susp.end()), susp.end());
        std::sort(shared.begin(), shared.end());
        shared.erase(std::unique(shared.begin(), shared.end()), shared.end());
        std::sort(hold.begin(), hold.end());
        hold.erase(std::unique(hold.begin(), hold.end()), hold.end());
    }
};

std::string method_name(Cont c, OpKind k)
{
    std::string cls = cont_name(c);
    if (c != Cont::ut_map && c != Cont::ut_set)
        cls += "_cache";
    const char* m = op_name(k);
    switch (k)
    {
        case OpKind::find_fill:
            m = "find_range_fill";
            break;
        case OpKind::find_uc:
            m = "find_with_use_count";
            break;
        case OpKind::age:
            m = "dynamically_age";
            break;
        case OpKind::clean:
            m = "clean_expired_values";
            break;
        default:
            break;
    }
    return cls + "::" + m;
}

// ------------------------------------------------------------- execution ----
struct HOp
{
    int      client; // -1 = prefill
    int      epoch;
    int      idx;
    Op       op;
    Result   res;
    int64_t  time;
    uint32_t inv{0}, ret{0}, lock{0};
    bool     has_lock{false};
    bool     completed{false};
    int      must_follow{-1}; // index of an op that has to be ordered before this one (split ranges)
    uint64_t key() const { return has_lock ? lock : inv; }
};

struct ClientCtx
{
    int                               id;
    Box*                              box;
    const std::vector<Epoch>*         epochs;
    std::vector<std::vector<Result>>  results;  // [epoch][idx]
    std::vector<std::vector<uint8_t>> done;     // [epoch][idx]
};

void client_main(ClientCtx* c)
{
    if (!sched::client_begin(c->id))
    {
        sched::client_leave();
        return;
    }
    for (;;)
    {
        int   e   = sched::current_epoch();
        auto& ops = (*c->epochs)[(size_t)e].clients[(size_t)c->id];
        for (size_t i = 0; i < ops.size(); ++i)
        {
            sched::point_invoke((int)i);
            Result r                      = c->box->exec(ops[i]);
            c->results[(size_t)e][i]      = std::move(r);
            c->done[(size_t)e][i]         = 1;
            sched::point_return((int)i);
        }
        if (!sched::client_epoch_done())
            break;
    }
    sched::client_leave();
}

// Looks at every key of the universe and the observers without policy side effects.
Result final_probe(Box& b, const Config& cfg, const Traits& tr)
{
    Result r;
    for (int k = 0; k < (int)cfg.universe; ++k)
    {
        Found f = tr.has_uc ? b.find_uc(k, true) : b.find(k, tr.has_peek);
        r.push_back(f.hit);
        r.push_back(f.val);
        r.push_back((int64_t)f.count);
    }
    r.push_back((int64_t)b.size());
    r.push_back(b.empty());
    return r;
}

struct LinCheck
{
    const ConcPlan&   plan;
    std::vector<HOp>& h;
    const Result&     final_conc;
    Traits            tr;
    uint64_t          nodes{0}, budget{300000};
    bool              exhausted{false};
    std::vector<int>  order; // accepted order
    std::string       why;   // first mismatch of the witness order

    LinCheck(const ConcPlan& p, std::vector<HOp>& hist, const Result& fc) : plan(p), h(hist), final_conc(fc), tr(traits_of(p.cfg.cont)) {}

    std::unique_ptr<Box> twin()
    {
        Config c = plan.cfg;
        c.ts     = false;
        sched::rd_rewind();
        return make_box(c);
    }
    Result apply(Box& b, const HOp& o)
    {
        sched::clock_set(o.time);
        return b.exec(o.op);
    }
    std::unique_ptr<Box> replay(const std::vector<int>& prefix)
    {
        auto b = twin();
        for (int i : prefix)
            apply(*b, h[(size_t)i]);
        return b;
    }
    bool final_ok(Box& b, int64_t tend)
    {
        sched::clock_set(tend);
        return final_probe(b, plan.cfg, tr) == final_conc;
    }

    // witness order first
    bool try_witness(int64_t tend)
    {
        std::vector<int> idx(h.size());
        for (size_t i = 0; i < h.size(); ++i)
            idx[i] = (int)i;
        std::stable_sort(idx.begin(), idx.end(), [&](int a, int b) { return h[(size_t)a].key() < h[(size_t)b].key(); });
        auto b = twin();
        for (int i : idx)
        {
            Result r = apply(*b, h[(size_t)i]);
            if (r != h[(size_t)i].res)
            {
                why = std::string(op_name(h[(size_t)i].op.kind)) + " by client " + std::to_string(h[(size_t)i].client) +
                      " returned " + result_str(h[(size_t)i].res) + " but " + result_str(r) + " in lock order";
                return false;
            }
        }
        if (!final_ok(*b, tend))
        {
            why = "final state differs from the state reached in lock order";
            return false;
        }
        order = idx;
        return true;
    }

    bool dfs(std::vector<int>& prefix, std::vector<uint8_t>& done, std::unique_ptr<Box>& cur, int64_t tend)
    {
        if (prefix.size() == h.size())
            return final_ok(*cur, tend);
        // minimal candidates: not done, every real-time predecessor done
        std::vector<int> cand;
        for (size_t i = 0; i < h.size(); ++i)
        {
            if (done[i])
                continue;
            bool ok = h[i].must_follow < 0 || done[(size_t)h[i].must_follow];
            for (size_t j = 0; j < h.size() && ok; ++j)
                if (!done[j] && j != i && h[j].ret < h[i].inv)
                    ok = false;
            if (ok)
                cand.push_back((int)i);
        }
        std::stable_sort(cand.begin(), cand.end(), [&](int a, int b) { return h[(size_t)a].key() < h[(size_t)b].key(); });
        bool first = true;
        for (int c : cand)
        {
            if (++nodes > budget)
            {
                exhausted = true;
                return false;
            }
            if (!first)
                cur = replay(prefix);
            first    = false;
            Result r = apply(*cur, h[(size_t)c]);
            if (r != h[(size_t)c].res)
                continue;
            prefix.push_back(c);
            done[(size_t)c] = 1;
            if (dfs(prefix, done, cur, tend))
                return true;
            if (exhausted)
                return false;
            prefix.pop_back();
            done[(size_t)c] = 0;
        }
        return false;
    }

    bool search(int64_t tend)
    {
        std::vector<int>     prefix;
        std::vector<uint8_t> done(h.size(), 0);
        auto                 cur = twin();
        bool                 ok  = dfs(prefix, done, cur, tend);
        if (ok)
            order = prefix;
        return ok;
    }
};

struct ConcRun
{
    ConcPlan     plan;
    ConcOutcome  out;
    std::string* trace;

    void fail(std::initializer_list<const char*> props, const char* check, const std::string& detail)
    {
        if (out.v.any())
            return;
        for (auto p : props)
            out.v.props.insert(p);
        out.v.check  = check;
        out.v.detail = detail;
    }
    void note(const Result& r)
    {
        out.st.log_hash = fnv1a(r.data(), r.size() * sizeof(int64_t), out.st.log_hash);
        out.st.log_hash = fnv1a("|", 1, out.st.log_hash);
    }

    void run()
    {
        Traits tr     = traits_of(plan.cfg.cont);
        out.plan_hash = fnv1a(plan.to_json().dump());
        sched::sim_thread(true);
        sched::rd_set(plan.rd.data(), plan.rd.size());
        int64_t now = plan.clock_start;
        sched::clock_set(now);
        tracked_reset_errors();
        const TrackedStats t0 = tracked_stats();
        tsan_reports_clear();

        std::unique_ptr<Box> box = make_box(plan.cfg);
        if (!box)
        {
            fail({}, "harness.unsupported_config", "no instantiation");
            sched::sim_thread(false);
            return;
        }
        std::vector<HOp> hist;
        uint32_t         pseudo = 0;
        for (size_t i = 0; i < plan.prefill.size(); ++i)
        {
            HOp o;
            o.client    = -1;
            o.epoch     = -1;
            o.idx       = (int)i;
            o.op        = plan.prefill[i];
            o.time      = now;
            o.res       = box->exec(o.op);
            o.inv       = pseudo++;
            o.ret       = pseudo++;
            o.completed = true;
            note(o.res);
            ++out.st.calls;
            hist.push_back(std::move(o));
        }
        const uint32_t base = pseudo; // scheduler sequence numbers are offset by this

        // ---- clients
        const int              n = plan.nclients;
        std::vector<ClientCtx> ctx((size_t)n);
        for (int c = 0; c < n; ++c)
        {
            ctx[(size_t)c].id     = c;
            ctx[(size_t)c].box    = box.get();
            ctx[(size_t)c].epochs = &plan.epochs;
            ctx[(size_t)c].results.resize(plan.epochs.size());
            ctx[(size_t)c].done.resize(plan.epochs.size());
            for (size_t e = 0; e < plan.epochs.size(); ++e)
            {
                ctx[(size_t)c].results[e].resize(plan.epochs[e].clients[(size_t)c].size());
                ctx[(size_t)c].done[e].assign(plan.epochs[e].clients[(size_t)c].size(), 0);
            }
        }
        sched::Spec spec;
        spec.nclients     = n;
        spec.mode         = plan.mode;
        spec.list         = plan.list.data();
        spec.nlist        = plan.list.size();
        spec.stall_client = plan.stall_client;
        spec.stall_from   = plan.stall_from;
        spec.stall_len    = plan.stall_len;
        for (int c = 0; c < n && c < sched::kMaxClients; ++c)
            spec.prio[c] = plan.prio[(size_t)c];
        spec.change_points = plan.change_points.data();
        spec.nchange       = plan.change_points.size();
        spec.fine          = plan.fine.data();
        spec.nfine         = plan.fine.size();
        spec.susp          = plan.susp.data();
        spec.nsusp         = plan.susp.size();
        spec.relock_stall  = plan.relock_stall;
        spec.shared        = plan.shared.data();
        spec.nshared       = plan.shared.size();
        spec.hold          = plan.hold.data();
        spec.nhold         = plan.hold.size();
        spec.obj_lo        = box->obj_addr();
        spec.obj_hi        = (const char*)box->obj_addr() + box->obj_size();
        sched::begin_run(spec);

        std::vector<std::thread> threads;
        for (int c = 0; c < n; ++c)
            threads.emplace_back(client_main, &ctx[(size_t)c]);

        std::vector<int64_t> etime(plan.epochs.size());
        sched::Status        status = sched::ST_OK;
        for (size_t e = 0; e < plan.epochs.size() && status == sched::ST_OK; ++e)
        {
            now += plan.epochs[e].adv_ns;
            out.st.sim_ns += plan.epochs[e].adv_ns;
            etime[e] = now;
            sched::clock_set(now);
            bool has_work[sched::kMaxClients] = {};
            for (int c = 0; c < n; ++c)
                has_work[c] = !plan.epochs[e].clients[(size_t)c].empty();
            status = sched::run_epoch((uint16_t)e, has_work);
        }
        sched::end_run();
        if (status == sched::ST_OK)
        {
            for (auto& t : threads)
                t.join();
        }
        else
        {
            for (auto& t : threads)
                t.detach();
            out.must_exit = true;
            (void)box.release(); // parked clients may sit inside the container: never destroy it
        }

        // ---- history from the event log
        size_t               nev = 0;
        const sched::Event*  ev  = sched::events(&nev);
        out.trace_hash           = sched::trace_hash();
        out.st.bump("sched.decisions", 0);
        {
            size_t nd = 0;
            sched::chosen(&nd);
            out.st.bump("sched.decisions", nd);
        }
        out.st.bump("fault.preemption", sched::preemptions());
        out.st.bump("fault.stall_denied_baton", sched::stalls_fired());
        out.st.bump("fault.lock_found_held", sched::blocked_fired());
        out.st.bump("fault.preempt_inside_unlocked_code", sched::fine_fired());
        out.st.bump("probe.unlocked_basic_blocks", sched::fine_seen());
        out.st.bump("fault.preempt_in_locked_code_running_unlocked", sched::susp_fired());
        out.st.bump("probe.locked_code_running_unlocked", sched::susp_seen());
        out.st.bump("fault.stall_at_second_lock_acquisition", sched::relock_fired());
        out.st.bump("probe.busy_wait_yields", sched::spin_yields());
        out.st.bump("fault.preempt_under_shared_hold", sched::shared_fired());
        out.st.bump("probe.basic_blocks_under_shared_hold", sched::shared_seen());
        out.st.bump("fault.preempt_under_exclusive_hold", sched::hold_fired());
        out.st.bump("probe.basic_blocks_under_exclusive_hold", sched::hold_seen());

        std::map<std::tuple<int, int, int>, size_t> where; // (client, epoch, idx) -> hist index
        for (size_t e = 0; e < plan.epochs.size(); ++e)
            for (int c = 0; c < n; ++c)
                for (size_t i = 0; i < plan.epochs[e].clients[(size_t)c].size(); ++i)
                {
                    HOp o;
                    o.client    = c;
                    o.epoch     = (int)e;
                    o.idx       = (int)i;
                    o.op        = plan.epochs[e].clients[(size_t)c][i];
                    o.time      = etime[e];
                    o.completed = ctx[(size_t)c].done[e][i] != 0;
                    if (o.completed)
                        o.res = ctx[(size_t)c].results[e][i];
                    where[{c, (int)e, (int)i}] = hist.size();
                    hist.push_back(std::move(o));
                }
        uint32_t in_flight_switches = 0;
        {
            int  open_ops = 0;
            int  last_c   = -2;
            for (size_t k = 0; k < nev; ++k)
            {
                const sched::Event& x = ev[k];
                if (x.client >= 0 && x.op >= 0)
                {
                    auto it = where.find({x.client, x.epoch, x.op});
                    if (it != where.end())
                    {
                        HOp& o = hist[it->second];
                        if (x.kind == sched::EV_INVOKE)
                            o.inv = base + x.seq;
                        else if (x.kind == sched::EV_RETURN)
                            o.ret = base + x.seq;
                        else if (x.kind == sched::EV_LOCK_ACQ && !o.has_lock)
                        {
                            o.has_lock = true;
                            o.lock     = base + x.seq;
                        }
                    }
                }
                if (x.kind == sched::EV_INVOKE)
                    ++open_ops;
                if (x.kind == sched::EV_RETURN)
                    --open_ops;
                if (x.client >= 0 && x.client != last_c && last_c >= 0 && open_ops > 1)
                    ++in_flight_switches;
                if (x.client >= 0)
                    last_c = x.client;
            }
        }
        for (auto& o : hist)
            if (o.client >= 0)
            {
                note(o.res);
                ++out.st.calls;
                // (capacity() is a constant and legitimately lock-free in five containers)
                if (o.completed && !o.has_lock && o.op.kind != OpKind::capacity)
                    out.st.bump("probe.calls_that_never_took_the_lock");
                if (!o.completed)
                    o.ret = UINT32_MAX;
            }
        out.st.log_hash = fnv1a(&out.trace_hash, sizeof out.trace_hash, out.st.log_hash);
        out.st.bump("probe.switch_with_calls_in_flight", in_flight_switches);
        if (in_flight_switches)
            out.st.nontrivial.insert("C06");
        {
            // C07 is about pairs of calls from different threads on one container
            std::set<int> active;
            for (auto& o : hist)
                if (o.client >= 0)
                    active.insert(o.client);
            if (active.size() >= 2)
                out.st.nontrivial.insert("C07");
        }
        if (trace)
        {
            for (size_t k = 0; k < nev; ++k)
            {
                static const char* kn[] = {"?", "invoke", "return", "lock-request", "lock-acquired", "unlock", "now", "blocked", "epoch-done", "epoch-start", "basic-block"};
                *trace += "  ev " + std::to_string(ev[k].seq) + " client " + std::to_string(ev[k].client) + " " + kn[ev[k].kind] +
                          " op " + std::to_string(ev[k].op) + " epoch " + std::to_string(ev[k].epoch) + "\n";
            }
            for (auto& o : hist)
                *trace += "  op client " + std::to_string(o.client) + " epoch " + std::to_string(o.epoch) + " #" + std::to_string(o.idx) + " " +
                          o.op.to_json().dump() + " -> " + (o.completed ? result_str(o.res) : std::string("(never returned)")) + "\n";
        }

        out.st.counters["eval.C06"]++;
        out.st.counters["eval.C07"]++;
        out.st.counters["eval.C08"]++;

        if (status == sched::ST_DEADLOCK)
        {
            fail({"C06"}, "conc.deadlock", "no client is runnable but not every client has finished (lock never released or lock order cycle)");
            sched::sim_thread(false);
            return;
        }
        if (sched::bad_unlocks() && status != sched::ST_DEADLOCK)
        {
            fail({"C06"}, "conc.unlock_without_ownership",
                 "the container's lock was released " + std::to_string(sched::bad_unlocks()) +
                     " time(s) by a thread that did not hold it (double unlock or unlock on a path that never locked): "
                     "whoever holds it then loses mutual exclusion");
            sched::sim_thread(false);
            return;
        }
        if (status == sched::ST_STEP_BUDGET)
        {
            fail({"C06"}, "conc.step_budget", "the run did not finish within the step budget (livelock)");
            sched::sim_thread(false);
            return;
        }

        // ---- C07: race reports (TSan build only)
        if (conc_is_tsan_build())
        {
            size_t         nr = tsan_report_count();
            const RaceRec* rr = tsan_reports();
            for (size_t i = 0; i < nr && !out.v.any(); ++i)
            {
                if (!rr[i].lib_a && !rr[i].lib_b)
                {
                    fail({}, "harness.race_without_library_frame", std::string("TSan report with no cappuccino frame: ") + rr[i].a + " | " + rr[i].b);
                    break;
                }
                std::string a = rr[i].a, b = rr[i].b;
                // a side whose stack TSan could not restore: fall back to "what did that client call"
                auto fallback = [&](std::string& nm, int lib, long os) {
                    if (lib)
                        return;
                    int c = sched::client_of_os_tid(os);
                    if (c < 0)
                        return;
                    std::set<std::string> kinds;
                    for (auto& o : hist)
                        if (o.client == c)
                            kinds.insert(method_name(plan.cfg.cont, o.op.kind));
                    if (kinds.size() == 1)
                        nm = *kinds.begin();
                };
                fallback(a, rr[i].lib_a, rr[i].os_a);
                fallback(b, rr[i].lib_b, rr[i].os_b);
                if (b < a)
                    std::swap(a, b);
                fail({"C07"}, "race", a + " | " + b);
                // the identity of a race finding is the unordered pair of public methods
                out.v.check = "race:" + a + "|" + b;
            }
            out.st.bump("tsan.reports", nr);
        }

        // ---- C06: linearizability against the sequential twin
        const int64_t tend = now;
        sched::clock_set(tend);
        Result final_conc = final_probe(*box, plan.cfg, tr);
        note(final_conc);

        // ---- order-independent invariants on the histories and on the final state:
        //      value provenance (C01) and truthful observers (C02)
        if (!out.v.any() && !conc_is_tsan_build())
        {
            std::map<uint32_t, int>     writer;  // value id -> key it was written under (values are unique per write)
            std::map<uint32_t, int64_t> dies_by; // value id -> instant at or after which it cannot be served any more
            // the longest TTL a uniform-TTL container can have had in force at any time of this plan
            int64_t ttl_max = plan.cfg.ttl_ms;
            for (auto& e : plan.epochs)
                for (auto& c : e.clients)
                    for (auto& o : c)
                        if (o.kind == OpKind::update_ttl)
                            ttl_max = std::max(ttl_max, o.ttl_ms);
            for (auto& o : plan.prefill)
                if (o.kind == OpKind::update_ttl)
                    ttl_max = std::max(ttl_max, o.ttl_ms);
            auto reg = [&](const Op& o, int64_t t) {
                auto one = [&](int key, uint32_t val, int64_t ttl_ms) {
                    writer[val] = key;
                    if (tr.ttl == TtlMode::per_entry)
                        dies_by[val] = t + ttl_ms * MS;
                    else if (tr.ttl == TtlMode::uniform)
                        dies_by[val] = t + ttl_max * MS;
                };
                if (o.kind == OpKind::insert)
                    one(o.key, o.val, o.ttl_ms);
                else if (o.kind == OpKind::insert_range)
                    for (auto& it : o.items)
                        one(it.key, it.val, it.ttl_ms);
            };
            for (auto& o : plan.prefill)
                reg(o, plan.clock_start);
            for (size_t e = 0; e < plan.epochs.size(); ++e)
                for (auto& c : plan.epochs[e].clients)
                    for (auto& o : c)
                        reg(o, etime[e]);
            // a value served at or after the last instant any write of it could still be alive (C04)
            auto stale = [&](int64_t hit, int64_t val, int64_t t) {
                if (!hit || !tr.has_values)
                    return false;
                auto it = dies_by.find((uint32_t)val);
                return it != dies_by.end() && t >= it->second;
            };
            auto foreign = [&](int key, int64_t hit, int64_t val) {
                if (!hit || !tr.has_values)
                    return false;
                auto it = writer.find((uint32_t)val);
                return it == writer.end() || it->second != key;
            };
            out.st.counters["eval.C01"]++;
            out.st.counters["eval.C02"]++;
            for (auto& o : hist)
            {
                if (!o.completed || out.v.any())
                    continue;
                const Result& r = o.res;
                if (tr.ttl != TtlMode::none)
                {
                    out.st.counters["eval.C04"]++;
                    bool bad = false;
                    if ((o.op.kind == OpKind::find || o.op.kind == OpKind::find_uc) && r.size() >= 2)
                        bad = stale(r[0], r[1], o.time);
                    if (o.op.kind == OpKind::find_range || o.op.kind == OpKind::find_fill)
                        for (size_t i = 0; i + 3 <= r.size(); i += 3)
                            bad = bad || stale(r[i + 1], r[i + 2], o.time);
                    if (bad)
                        fail({"C04", "C06"}, "conc.expired_served",
                             "a lookup by client " + std::to_string(o.client) + " at t=" + std::to_string(o.time) +
                                 " returned a value whose TTL had elapsed whatever the order of the calls");
                }
                if ((o.op.kind == OpKind::find || o.op.kind == OpKind::find_uc) && r.size() >= 2 && foreign(o.op.key, r[0], r[1]))
                    fail({"C01", "C06"}, "conc.foreign_value",
                         "lookup of key " + std::to_string(o.op.key) + " by client " + std::to_string(o.client) + " returned value " +
                             std::to_string(r[1]) + " which was never written under that key");
                if (o.op.kind == OpKind::find_range || o.op.kind == OpKind::find_fill)
                    for (size_t i = 0; i + 3 <= r.size(); i += 3)
                        if (foreign((int)r[i], r[i + 1], r[i + 2]))
                            fail({"C01", "C06"}, "conc.foreign_value",
                                 "range lookup by client " + std::to_string(o.client) + " returned for key " + std::to_string(r[i]) +
                                     " value " + std::to_string(r[i + 2]) + " which was never written under that key");
                const int64_t nres = tr.has_capacity ? (int64_t)plan.cfg.capacity : (int64_t)plan.cfg.universe;
                if (o.op.kind == OpKind::clean && !r.empty() && (r[0] < 0 || r[0] > nres))
                    fail({"C17", "C06"}, "conc.clean_count_out_of_bounds",
                         "clean_expired_values() returned " + std::to_string(r[0]) + " to client " + std::to_string(o.client) +
                             " (at most " + std::to_string(nres) + " entries can be resident)");
                if (o.op.kind == OpKind::age && !r.empty() && (r[0] < 0 || r[0] > nres))
                    fail({"C14", "C06"}, "conc.aged_count_out_of_bounds",
                         "dynamically_age() returned " + std::to_string(r[0]) + " to client " + std::to_string(o.client));
                if ((o.op.kind == OpKind::insert_range || o.op.kind == OpKind::erase_range) && !r.empty() &&
                    (r[0] < 0 || r[0] > (int64_t)effective_items(o.op).size()))
                    fail({"C18", "C06"}, "conc.range_count_out_of_bounds",
                         std::string(op_name(o.op.kind)) + " of " + std::to_string(effective_items(o.op).size()) + " elements returned " +
                             std::to_string(r[0]));
                if (o.op.kind == OpKind::size && tr.has_capacity && !r.empty() && (r[0] < 0 || r[0] > (int64_t)plan.cfg.capacity))
                    fail({"C02", "C06"}, "conc.size_out_of_bounds",
                         "size() returned " + std::to_string(r[0]) + " to client " + std::to_string(o.client) + " (capacity " +
                             std::to_string(plan.cfg.capacity) + ")");
                if (o.op.kind == OpKind::capacity && !r.empty() && r[0] != (int64_t)plan.cfg.capacity)
                    fail({"C02", "C06"}, "conc.capacity_changed",
                         "capacity() returned " + std::to_string(r[0]) + " to client " + std::to_string(o.client));
            }
            // ---- retention (C03; C05 for the TTL containers): a key that the prefill leaves resident, that no call
            //      of the plan erases or clears, that cannot be evicted (all keys ever written fit) and whose every
            //      write outlives the run, is found by every lookup whatever the order of the calls.  And a key
            //      cannot be erased successfully more often than it can have come into being.
            if (!out.v.any())
            {
                std::set<int>  written, erasable;
                bool           cleared = false;
                int64_t        ttl_min = plan.cfg.ttl_ms;
                std::map<int, int64_t> min_entry_ttl; // per-entry TTL containers: shortest TTL any write of the key carries
                std::map<int, bool>    resident;      // after the prefill, going by the plan
                auto scan = [&](const Op& o, bool prefill) {
                    switch (o.kind)
                    {
                        case OpKind::insert:
                            written.insert(o.key);
                            if (!min_entry_ttl.count(o.key) || o.ttl_ms < min_entry_ttl[o.key])
                                min_entry_ttl[o.key] = o.ttl_ms;
                            if (prefill && o.allow == ALLOW_BOTH)
                                resident[o.key] = true;
                            break;
                        case OpKind::insert_range:
                            for (auto& it : o.items)
                            {
                                written.insert(it.key);
                                if (!min_entry_ttl.count(it.key) || it.ttl_ms < min_entry_ttl[it.key])
                                    min_entry_ttl[it.key] = it.ttl_ms;
                                if (prefill && o.allow == ALLOW_BOTH)
                                    resident[it.key] = true;
                            }
                            break;
                        case OpKind::erase:
                            erasable.insert(o.key);
                            if (prefill)
                                resident[o.key] = false;
                            break;
                        case OpKind::erase_range:
                            for (auto& it : o.items)
                            {
                                erasable.insert(it.key);
                                if (prefill)
                                    resident[it.key] = false;
                            }
                            break;
                        case OpKind::clear:
                            cleared = true;
                            break;
                        case OpKind::update_ttl:
                            ttl_min = std::min(ttl_min, o.ttl_ms);
                            break;
                        default:
                            break;
                    }
                };
                // (an erase or clear in the prefill makes the key / the plan ineligible as well: keep the rule simple)
                for (auto& o : plan.prefill)
                    scan(o, true);
                for (auto& e : plan.epochs)
                    for (auto& c : e.clients)
                        for (auto& o : c)
                            scan(o, false);
                const bool no_evict = !tr.has_capacity || written.size() <= plan.cfg.capacity;
                auto       retained = [&](int k) {
                    if (cleared || !no_evict || erasable.count(k))
                        return false;
                    auto it = resident.find(k);
                    if (it == resident.end() || !it->second)
                        return false;
                    if (tr.ttl == TtlMode::per_entry)
                        return plan.clock_start + min_entry_ttl[k] * MS > tend;
                    if (tr.ttl == TtlMode::uniform)
                        return plan.clock_start + ttl_min * MS > tend;
                    return true;
                };
                const bool timed_c = tr.ttl != TtlMode::none;
                auto       rfail   = [&](const char* check, const std::string& detail) {
                    if (timed_c)
                        fail({"C03", "C05", "C06"}, check, detail);
                    else
                        fail({"C03", "C06"}, check, detail);
                };
                bool any_retained = false;
                for (int k = 0; k < (int)plan.cfg.universe; ++k)
                    any_retained = any_retained || retained(k);
                if (any_retained)
                {
                    out.st.counters["eval.C03"]++;
                    if (tr.ttl != TtlMode::none)
                        out.st.counters["eval.C05"]++;
                    if (in_flight_switches)
                    {
                        out.st.nontrivial.insert("C03");
                        if (tr.ttl != TtlMode::none)
                            out.st.nontrivial.insert("C05");
                    }
                    out.st.bump("probe.conc_retained_keys_checked");
                }
                for (auto& o : hist)
                {
                    if (!o.completed || o.client < 0 || out.v.any() || !any_retained)
                        continue;
                    const Result& r = o.res;
                    if ((o.op.kind == OpKind::find || o.op.kind == OpKind::find_uc) && !r.empty() && !r[0] && retained(o.op.key))
                        rfail("conc.retained_key_lost",
                             "lookup of key " + std::to_string(o.op.key) + " by client " + std::to_string(o.client) +
                                 " missed although the key was resident before the clients started, is never erased, cannot be evicted and cannot have expired");
                    if (o.op.kind == OpKind::find_range || o.op.kind == OpKind::find_fill)
                        for (size_t i = 0; i + 3 <= r.size(); i += 3)
                            if (!r[i + 1] && retained((int)r[i]) && !out.v.any())
                                rfail("conc.retained_key_lost",
                                     "range lookup by client " + std::to_string(o.client) + " missed key " + std::to_string(r[i]) +
                                         " although the key was resident before the clients started, is never erased, cannot be evicted and cannot have expired");
                }
                for (int k = 0; k < (int)plan.cfg.universe && !out.v.any(); ++k)
                    if (retained(k) && !final_conc[(size_t)k * 3])
                        rfail("conc.retained_key_lost_final",
                             "after the run key " + std::to_string(k) +
                                 " is gone although it was resident before the clients started, is never erased, cannot be evicted and cannot have expired");
                // successful erases of a key <= 1 (if it can be resident at the start) + calls that can create it
                if (!out.v.any())
                {
                    std::map<int, int64_t> creations, erased;
                    for (auto& o : hist)
                    {
                        if (o.client < 0)
                            continue;
                        if (o.op.kind == OpKind::insert && (o.op.allow & ALLOW_INSERT) && (!o.completed || (!o.res.empty() && o.res[0])))
                            creations[o.op.key]++;
                        if (o.op.kind == OpKind::insert_range && (o.op.allow & ALLOW_INSERT))
                            for (auto& it : o.op.items)
                                creations[it.key]++;
                        if (o.op.kind == OpKind::erase && o.completed && !o.res.empty() && o.res[0])
                            erased[o.op.key]++;
                    }
                    for (auto& kv : erased)
                        if (kv.second > 1 + creations[kv.first])
                            fail({"C03", "C06"}, "conc.erase_succeeded_too_often",
                                 "erase of key " + std::to_string(kv.first) + " returned true " + std::to_string(kv.second) +
                                     " times but the key can have come into being only " + std::to_string(1 + creations[kv.first]) + " time(s)");
                }
            }
            if (!out.v.any())
            {
                // final state, read single threaded after every client has finished
                size_t  n     = final_conc.size();
                int64_t fsize = final_conc[n - 2], fempty = final_conc[n - 1], found = 0;
                for (int k = 0; k < (int)plan.cfg.universe; ++k)
                {
                    found += final_conc[(size_t)k * 3];
                    if (tr.ttl != TtlMode::none && stale(final_conc[(size_t)k * 3], final_conc[(size_t)k * 3 + 1], tend))
                        fail({"C04", "C06"}, "conc.expired_served_final",
                             "after the run key " + std::to_string(k) + " still serves a value whose TTL had elapsed whatever the order of the calls");
                    if (foreign(k, final_conc[(size_t)k * 3], final_conc[(size_t)k * 3 + 1]))
                        fail({"C01", "C06"}, "conc.foreign_value_final",
                             "after the run key " + std::to_string(k) + " holds value " + std::to_string(final_conc[(size_t)k * 3 + 1]) +
                                 " which was never written under that key");
                }
                if (tr.has_capacity && (fsize < 0 || fsize > (int64_t)plan.cfg.capacity))
                    fail({"C02", "C06"}, "conc.final_size_out_of_bounds",
                         "after the run size()=" + std::to_string(fsize) + " with capacity " + std::to_string(plan.cfg.capacity));
                else if (fempty != (fsize == 0))
                    fail({"C02", "C06"}, "conc.final_empty", "after the run empty() disagrees with size()=" + std::to_string(fsize));
                else if (tr.ttl == TtlMode::none ? fsize != found : fsize < found)
                    fail({"C02", "C06"}, "conc.final_size_ne_found",
                         "after the run size()=" + std::to_string(fsize) + " but " + std::to_string(found) + " keys are found");
                // use counts can only come from uses: count(k) <= successful writes of k + successful non-peek lookups of k
                if (tr.has_uc && !out.v.any())
                {
                    out.st.counters["eval.C11"]++;
                    std::map<int, int64_t> uses;
                    for (auto& o : hist)
                    {
                        if (!o.completed)
                        {
                            // a call that never returned may have had its effect
                            for (auto& it : o.op.items)
                                uses[it.key]++;
                            uses[o.op.key]++;
                            continue;
                        }
                        const Result& r = o.res;
                        switch (o.op.kind)
                        {
                            case OpKind::insert:
                                if (!r.empty() && r[0])
                                    uses[o.op.key]++;
                                break;
                            case OpKind::insert_range:
                                for (auto& it : o.op.items)
                                    uses[it.key]++;
                                break;
                            case OpKind::find:
                            case OpKind::find_uc:
                                if (!o.op.peek && r.size() >= 2 && r[0])
                                    uses[o.op.key]++;
                                break;
                            case OpKind::find_range:
                            case OpKind::find_fill:
                                if (!o.op.peek)
                                    for (size_t i = 0; i + 3 <= r.size(); i += 3)
                                        if (r[i + 1])
                                            uses[(int)r[i]]++;
                                break;
                            default:
                                break;
                        }
                    }
                    for (int k = 0; k < (int)plan.cfg.universe && !out.v.any(); ++k)
                        if (final_conc[(size_t)k * 3] && final_conc[(size_t)k * 3 + 2] > uses[k])
                            fail({"C11", "C06"}, "conc.use_count_exceeds_uses",
                                 "after the run key " + std::to_string(k) + " has use count " + std::to_string(final_conc[(size_t)k * 3 + 2]) +
                                     " but only " + std::to_string(uses[k]) + " successful writes / non-peek lookups of it were made");
                }
                if (in_flight_switches)
                {
                    out.st.nontrivial.insert("C01");
                    out.st.nontrivial.insert("C02");
                    if (tr.has_uc)
                        out.st.nontrivial.insert("C11");
                    if (tr.has_clean)
                    {
                        out.st.nontrivial.insert("C17");
                        out.st.nontrivial.insert("C04");
                    }
                    out.st.nontrivial.insert("C18");
                }
            }
        }
        if (!out.v.any() && !conc_is_tsan_build())
        {
            LinCheck lc(plan, hist, final_conc);
            if (lc.try_witness(tend))
                out.st.bump("lin.witness_order_accepted");
            else
            {
                out.st.bump("lin.full_search");
                if (lc.search(tend))
                    out.st.bump("lin.accepted_by_search");
                else if (lc.exhausted)
                    out.st.bump("lin.search_budget_exhausted");
                else
                {
                    // Diagnosis: is the history linearizable once every lookup range is taken apart into its
                    // single lookups (in element order)?  Then the only thing wrong is that a range did not
                    // take effect at one instant, which is C18's claim as well as C06's.
                    std::vector<HOp> split;
                    bool             any_split = false;
                    for (auto& o : hist)
                    {
                        bool is_lr = (o.op.kind == OpKind::find_range || o.op.kind == OpKind::find_fill) && o.completed;
                        auto items = is_lr ? effective_items(o.op) : std::vector<Item>();
                        if (!is_lr || items.size() < 2 || o.res.size() != items.size() * 3)
                        {
                            split.push_back(o);
                            continue;
                        }
                        any_split = true;
                        for (size_t i = 0; i < items.size(); ++i)
                        {
                            HOp sgl         = o;
                            sgl.op          = Op();
                            sgl.op.kind     = OpKind::find;
                            sgl.op.key      = items[i].key;
                            sgl.op.peek     = o.op.peek;
                            sgl.res         = {o.res[i * 3 + 1], o.res[i * 3 + 2]};
                            sgl.must_follow = i ? (int)split.size() - 1 : -1;
                            split.push_back(sgl);
                        }
                    }
                    bool split_ok = false;
                    if (any_split)
                    {
                        LinCheck lc2(plan, split, final_conc);
                        lc2.budget = 100000;
                        split_ok   = lc2.search(tend);
                    }
                    if (split_ok)
                        fail({"C06", "C18"}, "lin.range_not_atomic",
                             "no sequential order reproduces the results with range lookups atomic, but one exists when each "
                             "range is taken apart into its single lookups: a range was observed partially applied (" + lc.why + ")");
                    else
                        fail({"C06"}, "lin.no_sequential_order",
                             "no sequential order consistent with real time reproduces the results (" + lc.why + ")");
                }
                out.st.bump("lin.search_nodes", lc.nodes);
            }
        }

        // ---- teardown
        box.reset();
        if (plan.cfg.vt == ValT::t && !out.v.any())
        {
            const TrackedStats t1 = tracked_stats();
            if (t1.bad_destroy || t1.bad_construct || t1.live != t0.live)
                fail({"C08"}, "lifetime.conc", "value objects: " + std::to_string(t1.live - t0.live) + " leaked, " +
                                                   std::to_string(t1.bad_destroy) + " double destroyed");
        }
        sched::sim_thread(false);
    }
};

// -------------------------------------------------------------- generation ----
struct CGen
{
    Rng      r;
    ConcPlan p;
    Traits   tr;
    uint32_t next_val{1};
    std::vector<int64_t> ttls;

    explicit CGen(uint64_t seed) : r(seed) {}

    bool     retain{false};
    int     key() { return (int)r.below(p.cfg.universe); }
    int     upper_key()
    {
        int lo = (int)(p.cfg.universe + 1) / 2;
        return lo >= (int)p.cfg.universe ? lo : lo + (int)r.below(p.cfg.universe - (uint32_t)lo);
    }
    int64_t ttl() { return r.pick(ttls); }
    int     allow()
    {
        unsigned x = (unsigned)r.below(8);
        return x < 4 ? ALLOW_BOTH : x < 6 ? ALLOW_INSERT : ALLOW_UPDATE;
    }
    std::vector<Item> items(bool vals, size_t minlen)
    {
        std::vector<Item> v;
        size_t            n = (size_t)r.range((int64_t)minlen, (int64_t)std::max<size_t>(minlen, 4));
        for (size_t i = 0; i < n; ++i)
        {
            Item it;
            it.key = key();
            if (vals)
            {
                it.val    = next_val++;
                it.ttl_ms = ttl();
            }
            v.push_back(it);
        }
        return v;
    }
    int form(OpKind k)
    {
        std::vector<int> f = {0};
        if (k == OpKind::insert_range)
        {
            f.push_back(1);
            if (p.cfg.cont != Cont::tlru)
                f.push_back(2);
        }
        else if (k == OpKind::find_fill)
        {
            f.push_back(2);
            f.push_back(5);
        }
        else
            f.push_back(1);
        if (tr.iter_forms)
        {
            f.push_back(3);
            if (k == OpKind::find_range)
                f.push_back(4); // iterator pair without the distance hint
        }
        return r.pick(f);
    }
    Op op(OpKind k)
    {
        Op o;
        o.kind = k;
        switch (k)
        {
            case OpKind::insert:
                o.key    = key();
                o.val    = next_val++;
                o.allow  = allow();
                o.ttl_ms = ttl();
                break;
            case OpKind::insert_range:
                o.allow = allow();
                o.items = items(true, 2);
                o.form  = form(k);
                break;
            case OpKind::erase:
                o.key = key();
                if (retain)
                    o.key = upper_key();
                break;
            case OpKind::erase_range:
                o.items = items(false, 2);
                if (retain)
                    for (auto& it : o.items)
                        it.key = upper_key();
                o.form  = form(k);
                break;
            case OpKind::find:
            case OpKind::find_uc:
                o.key  = key();
                o.peek = tr.has_peek && r.chance(1, 3);
                break;
            case OpKind::find_range:
            case OpKind::find_fill:
                o.items = items(false, 2);
                o.peek  = tr.has_peek && r.chance(1, 3);
                o.form  = form(k);
                break;
            case OpKind::update_ttl:
                o.ttl_ms = ttl();
                break;
            default:
                break;
        }
        return o;
    }
    std::vector<OpKind> kinds()
    {
        std::vector<OpKind> k = {OpKind::insert, OpKind::insert, OpKind::insert, OpKind::insert_range, OpKind::insert_range,
                                 OpKind::erase,  OpKind::erase_range, OpKind::find, OpKind::find, OpKind::find_range,
                                 OpKind::find_fill, OpKind::size, OpKind::empty};
        if (tr.has_capacity)
            k.push_back(OpKind::capacity);
        if (tr.has_uc)
            k.push_back(OpKind::find_uc);
        if (tr.has_age)
        {
            k.push_back(OpKind::age);
            k.push_back(OpKind::age);
        }
        if (tr.has_clean)
        {
            k.push_back(OpKind::clean);
            k.push_back(OpKind::clean);
        }
        if (tr.has_clear)
            k.push_back(OpKind::clear);
        if (tr.has_update_ttl)
            k.push_back(OpKind::update_ttl);
        return k;
    }

    void config(bool tsan, bool thorough)
    {
        Config& c = p.cfg;
        c.ts      = true;
        unsigned x = (unsigned)r.below(5);
        if (x < 2 || (tsan && x >= 3))
        {
            c.kt = KeyT::i;
            c.vt = ValT::i;
        }
        else if (x < 3)
        {
            c.kt = KeyT::s;
            c.vt = ValT::s;
        }
        else
        {
            c.kt = KeyT::c;
            c.vt = ValT::t;
        }
        if (!combo_supported(c.kt, c.vt))
        {
            c.kt = KeyT::i;
            c.vt = ValT::i;
        }
        static const unsigned caps[] = {1, 2, 2, 3, 3, 4, 5};
        c.capacity                   = caps[r.below(7)];
        c.universe                   = tr.has_capacity ? c.capacity + (uint32_t)r.range(1, 3) : (uint32_t)r.range(2, 6);
        static const double mlfs[]   = {0.25, 1.0, 1.0, 8.0};
        c.mlf                        = mlfs[r.below(4)];
        static const int64_t tt[]    = {0, 1, 5, 50, 1000, 3600000};
        size_t               np      = (size_t)r.range(1, 3);
        for (size_t i = 0; i < np; ++i)
            ttls.push_back(tt[r.below(6)]);
        c.ttl_ms = ttl();
        if (c.ttl_ms == 0 && r.chance(3, 4))
            c.ttl_ms = 50;
        static const int64_t ticks[] = {1, 5, 1000};
        c.tick_ms                    = ticks[r.below(3)];
        static const double ratios[] = {0.0, 0.5, 0.5, 1.0};
        c.ratio                      = ratios[r.below(4)];
        retain                       = false;
        p.clock_start                = r.chance(1, 2) ? 0 : (int64_t)r.below(1000000000000ULL);
        p.rd.clear();
        for (int i = 0; i < 4; ++i)
            p.rd.push_back((uint32_t)r.next());
        (void)thorough;
    }

    int64_t adv()
    {
        bool timed = tr.ttl != TtlMode::none || tr.policy == Policy::lfuda;
        if (!timed)
            return 0;
        if (retain && tr.ttl != TtlMode::none)
            return r.chance(1, 2) ? 0 : r.range(1, 2 * MS);
        int64_t unit = (tr.policy == Policy::lfuda ? p.cfg.tick_ms : std::max<int64_t>(1, p.cfg.ttl_ms)) * MS;
        switch (r.below(5))
        {
            case 0:
                return 0;
            case 1:
                return unit;
            case 2:
                return unit + 1;
            case 3:
                return r.range(1, 2 * unit);
            default:
                return unit - 1 > 0 ? unit - 1 : 0;
        }
    }

    ConcPlan random_plan(Cont cont, bool tsan, bool thorough, const std::string& prop = "")
    {
        p.cfg.cont = cont;
        tr         = traits_of(cont);
        config(tsan, thorough);
        auto ks    = kinds();
        // retention plans (C03 / C05): every key fits, lifetimes outlast the run, the lower half of the keys is
        // resident from the start and never erased: whatever the interleaving, those keys must be found
        retain = (prop == "C03" || prop == "C05") && r.chance(2, 3);
        if (retain)
        {
            if (tr.has_capacity)
                p.cfg.capacity = p.cfg.universe = (uint32_t)r.range(2, 5);
            ttls       = {1000, 3600000};
            p.cfg.ttl_ms = ttl();
            ks.erase(std::remove(ks.begin(), ks.end(), OpKind::clear), ks.end());
            if (prop == "C03")
                for (int i = 0; i < 3; ++i)
                    ks.push_back(OpKind::erase);
            // every key resident at the start (they all fit): the upper half is what the clients erase
            for (int k = 0; k < (int)p.cfg.universe; ++k)
            {
                Op o = op(OpKind::insert);
                o.key   = k;
                o.allow = ALLOW_BOTH;
                p.prefill.push_back(o);
            }
        }
        p.nclients = (int)r.range(2, thorough ? 4 : 3);
        size_t npf = retain ? 0 : (size_t)r.range(0, (int64_t)p.cfg.capacity + 1);
        for (size_t i = 0; i < npf; ++i)
            p.prefill.push_back(op(r.chance(3, 4) ? OpKind::insert : r.pick(ks)));
        size_t ne = (size_t)r.range(1, thorough ? 3 : 2);
        for (size_t e = 0; e < ne; ++e)
        {
            Epoch ep;
            ep.adv_ns = adv();
            for (int c = 0; c < p.nclients; ++c)
            {
                std::vector<Op> ops;
                size_t          no = (size_t)r.range(1, thorough ? 5 : 3);
                for (size_t i = 0; i < no; ++i)
                    ops.push_back(op(r.pick(ks)));
                ep.clients.push_back(std::move(ops));
            }
            p.epochs.push_back(std::move(ep));
        }
        // ---- schedule policy
        unsigned pol = (unsigned)r.below(4);
        if (pol == 0)
        {
            // uniform random choice at every point
            p.mode = 0;
            for (int i = 0; i < 160; ++i)
                p.list.push_back((int32_t)r.range(0, p.nclients));
        }
        else if (pol == 1)
        {
            // run to completion unless preempted with probability 1/q
            p.mode     = 0;
            unsigned q = (unsigned)r.range(3, 12);
            for (int i = 0; i < 160; ++i)
                p.list.push_back(r.chance(1, q) ? (int32_t)r.range(1, p.nclients) : 0);
        }
        else if (pol == 2)
        {
            // PCT: random priorities, d change points
            p.mode = 2;
            std::vector<int> pr;
            for (int c = 0; c < p.nclients; ++c)
                pr.push_back(c + 1);
            for (size_t i = pr.size(); i > 1; --i)
                std::swap(pr[i - 1], pr[r.below(i)]);
            p.prio = pr;
            size_t d = (size_t)r.range(0, 3);
            for (size_t i = 0; i < d; ++i)
                p.change_points.push_back((uint32_t)r.below(60));
        }
        else
        {
            // stall fault on top of a mostly-sequential schedule
            p.mode = 0;
            for (int i = 0; i < 160; ++i)
                p.list.push_back(r.chance(1, 8) ? (int32_t)r.range(1, p.nclients) : 0);
            p.stall_client = (int)r.below((uint64_t)p.nclients);
            p.stall_from   = (uint32_t)r.below(12);
            p.stall_len    = (uint32_t)r.range(3, 40);
        }
        // ---- a call that takes the container's lock a second time is parked there while the others run on
        {
            static const uint32_t rs[] = {0, 6, 14, 30, 60};
            p.relock_stall             = rs[r.below(5)];
        }
        // ---- preemptions while the container's lock is held shared (reader/writer locks only: other
        //      readers can be inside the same critical section then)
        if (r.chance(3, 4))
        {
            p.shared.push_back((uint32_t)r.below(12));
            if (r.chance(1, 2))
                p.shared.push_back((uint32_t)r.below(120));
        }
        // ---- preemptions where code that calibration saw only under the lock runs without it
        //      (never happens on a tree that locks consistently, so it costs nothing there)
        if (r.chance(3, 4))
        {
            p.susp.push_back((uint32_t)r.below(8));
            if (r.chance(1, 2))
                p.susp.push_back((uint32_t)r.below(80));
            if (r.chance(1, 4))
                p.susp.push_back((uint32_t)r.below(400));
        }
        // ---- basic-block preemptions inside code that holds no lock (1 run in 2)
        if (r.chance(1, 2))
        {
            size_t nf = (size_t)r.range(1, 4);
            for (size_t i = 0; i < nf; ++i)
                p.fine.push_back((uint32_t)r.below(r.chance(1, 2) ? 200 : 2500));
        }
        p.normalize();
        return p;
    }
};

// ---- the complete method-pair matrix (C07 quick tier) -----------------------
struct PairSpace
{
    struct Entry
    {
        Cont   cont;
        OpKind a, b;
        int    variant; // 0: a then b, 1: b then a, 2: a stalled at its first schedule point inside the call
        int    args;    // 0: same / present keys, 1: different / absent keys
    };
    std::vector<Entry> all;
    PairSpace()
    {
        for (int ci = 0; ci < (int)Cont::COUNT; ++ci)
        {
            Cont                cont = (Cont)ci;
            Traits              tr   = traits_of(cont);
            std::vector<OpKind> ks   = {OpKind::insert, OpKind::insert_range, OpKind::erase, OpKind::erase_range, OpKind::find,
                                        OpKind::find_range, OpKind::find_fill, OpKind::size, OpKind::empty};
            if (tr.has_capacity)
                ks.push_back(OpKind::capacity);
            if (tr.has_uc)
                ks.push_back(OpKind::find_uc);
            if (tr.has_age)
                ks.push_back(OpKind::age);
            if (tr.has_clean)
                ks.push_back(OpKind::clean);
            if (tr.has_clear)
                ks.push_back(OpKind::clear);
            if (tr.has_update_ttl)
                ks.push_back(OpKind::update_ttl);
            for (auto a : ks)
                for (auto b : ks)
                    for (int v = 0; v < 4; ++v)
                        for (int g = 0; g < (tr.has_peek ? 4 : 2); ++g) // 2, 3: as 0, 1 with peeking lookups
                            all.push_back({cont, a, b, v, g});
        }
    }
};
const PairSpace& pair_space()
{
    static PairSpace ps;
    return ps;
}

ConcPlan pair_plan(uint64_t idx, uint64_t seed)
{
    const auto& e = pair_space().all[idx % pair_space().all.size()];
    ConcPlan    p;
    Traits      tr = traits_of(e.cont);
    Rng         r(mix3(seed, 0x7a17, idx));
    p.cfg.cont     = e.cont;
    p.cfg.ts       = true;
    p.cfg.kt       = r.chance(1, 2) ? KeyT::i : KeyT::s;
    p.cfg.vt       = p.cfg.kt == KeyT::i ? ValT::i : ValT::s;
    p.cfg.capacity = 3;
    p.cfg.universe = 6;
    p.cfg.ttl_ms   = 10;
    p.cfg.tick_ms  = 5;
    p.cfg.ratio    = 0.5;
    p.clock_start  = 1000;
    p.rd           = {(uint32_t)r.next()};
    p.nclients     = 2;
    p.note         = std::string(cont_name(e.cont)) + ":" + op_name(e.a) + "|" + op_name(e.b) + " v" + std::to_string(e.variant) + " a" + std::to_string(e.args);
    uint32_t val   = 1;
    // pre-populate: keys 0,1 long-lived, key 2 short-lived (expired by the time the clients run); the cache is full
    auto ins = [&](int k, int64_t ttl) {
        Op o;
        o.kind   = OpKind::insert;
        o.key    = k;
        o.val    = val++;
        o.ttl_ms = ttl;
        return o;
    };
    if (tr.has_update_ttl)
    {
        // uniform TTL: write the short-lived entry first with a short TTL, then lengthen
        Op u;
        u.kind   = OpKind::update_ttl;
        u.ttl_ms = 1;
        p.prefill.push_back(u);
        p.prefill.push_back(ins(2, 1));
        u.ttl_ms = 1000;
        p.prefill.push_back(u);
        p.prefill.push_back(ins(0, 1000));
        p.prefill.push_back(ins(1, 1000));
    }
    else
    {
        p.prefill.push_back(ins(2, 1));
        p.prefill.push_back(ins(0, 1000));
        p.prefill.push_back(ins(1, 1000));
    }
    auto mk = [&](OpKind k, int who) {
        Op o;
        o.kind  = k;
        const int  av   = e.args & 1;
        const bool peek = (e.args & 2) != 0;
        int        kp   = av == 0 ? 0 : (who == 0 ? 1 : 4); // present key 0 for both, or 1 (present) / 4 (absent)
        int        kn   = av == 0 ? 3 : (who == 0 ? 3 : 5); // new keys
        switch (k)
        {
            case OpKind::insert:
                o.key    = av == 0 ? kp : kn;
                o.val    = val++;
                o.ttl_ms = 1000;
                break;
            case OpKind::insert_range:
                o.items = {Item{kp, val++, 1000}, Item{kn, val++, 1000}};
                o.form  = tr.iter_forms ? 3 : 0;
                break;
            case OpKind::erase:
                o.key = kp;
                break;
            case OpKind::erase_range:
                o.items = {Item{kp, 0, 0}, Item{2, 0, 0}};
                o.form  = tr.iter_forms ? 3 : 0;
                break;
            case OpKind::find:
            case OpKind::find_uc:
                o.key  = av == 0 ? kp : 2;
                o.peek = peek;
                break;
            case OpKind::find_range:
            case OpKind::find_fill:
                o.peek  = peek;
                o.items = {Item{kp, 0, 0}, Item{2, 0, 0}, Item{1, 0, 0}};
                o.form  = tr.iter_forms ? ((k == OpKind::find_range && av == 1) ? 4 : 3) : 0;
                break;
            case OpKind::update_ttl:
                o.ttl_ms = who == 0 ? 20 : 30;
                break;
            default:
                break;
        }
        return o;
    };
    Epoch ep;
    ep.adv_ns = 5 * MS; // key 2 has expired, keys 0/1 are live; lfuda: idle longer than... (tick 5ms: not yet, strict)
    if (tr.policy == Policy::lfuda)
        ep.adv_ns = 6 * MS;
    ep.clients.push_back({mk(e.a, 0)});
    ep.clients.push_back({mk(e.b, 1)});
    p.epochs.push_back(std::move(ep));
    p.mode = 1; // explicit choices
    if (e.variant == 0)
        p.list = {0, 0, 0, 0, 0, 0, 0, 0, 0, 0, 0, 0, 1, 1, 1, 1, 1, 1, 1, 1, 1, 1, 1, 1};
    else if (e.variant == 1)
        p.list = {1, 1, 1, 1, 1, 1, 1, 1, 1, 1, 1, 1, 0, 0, 0, 0, 0, 0, 0, 0, 0, 0, 0, 0};
    else if (e.variant == 2)
        p.list = {0, 0, 1, 1, 1, 1, 1, 1, 1, 1, 1, 1, 1, 1, 0, 0, 0, 0, 0, 0, 0, 0, 0, 0}; // c0 parked at its 2nd schedule point
    else
        p.list = {0, 0, 0, 1, 1, 1, 1, 1, 1, 1, 1, 1, 1, 1, 1, 0, 0, 0, 0, 0, 0, 0, 0, 0}; // c0 parked at its 3rd schedule point
    p.normalize();
    return p;
}

} // namespace

uint64_t conc_pairs_total() { return pair_space().all.size(); }

js::Value conc_genplan(const std::string& world, const std::string& prop, uint64_t seed, uint64_t idx, bool thorough)
{
    if (world == "pairs")
        return pair_plan(idx, seed).to_json();
    uint64_t rs = mix3(seed, fnv1a(world + "/" + prop), idx);
    CGen     g(rs);
    // a property that speaks about some containers only gets its concurrent runs on those
    GenProfile prof = profile_for(prop, thorough);
    Cont       cont = g.r.pick(prof.conts);
    return g.random_plan(cont, conc_is_tsan_build(), thorough, prop).to_json();
}

// Once per process: a fixed single-threaded workload over every thread_safe::yes instantiation
// tells the scheduler which basic blocks of the container code run under the container's lock.
static void calibrate_once()
{
    static bool done = false;
    if (done)
        return;
    done = true;
    sched::sim_thread(true);
    const KeyT kts[] = {KeyT::i, KeyT::s, KeyT::c};
    const ValT vts[] = {ValT::i, ValT::s, ValT::t};
    for (int ci = 0; ci < (int)Cont::COUNT; ++ci)
        for (int combo = 0; combo < 3; ++combo)
        {
            if (!combo_supported(kts[combo], vts[combo]))
                continue;
            GenProfile prof = profile_for("", false);
            prof.conts      = {(Cont)ci};
            for (uint64_t seed = 1; seed <= 8; ++seed)
            {
                SeqPlan plan = gen_seq_plan(mix3(0xca11b, (uint64_t)ci * 8 + (uint64_t)combo, seed), prof);
                plan.cfg.ts  = true;
                plan.cfg.kt  = kts[combo];
                plan.cfg.vt  = vts[combo];
                plan.normalize();
                uint32_t rd[1] = {(uint32_t)seed};
                sched::rd_set(rd, 1);
                int64_t now = plan.clock_start;
                sched::clock_set(now);
                auto box = make_box(plan.cfg);
                if (!box)
                    continue;
                sched::calib_begin(box->obj_addr(), (const char*)box->obj_addr() + box->obj_size());
                for (auto& st : plan.steps)
                {
                    now += st.adv_ns;
                    sched::clock_set(now);
                    box->exec(st.op);
                    box->size();
                    box->empty();
                    box->capacity();
                }
                sched::calib_end();
            }
        }
    sched::sim_thread(false);
}

ConcOutcome conc_run_plan_json(const js::Value& pj, std::string* trace)
{
    calibrate_once();
    ConcRun run;
    run.trace = trace;
    if (!run.plan.from_json(pj))
    {
        run.out.v.check = "harness.bad_plan";
        return run.out;
    }
    run.run();
    return run.out;
}

// ---------------------------------------------------------------- shrinking ----
size_t conc_shrink_json(js::Value& pj, const std::function<bool(const js::Value&)>& pred, size_t budget)
{
    ConcPlan plan;
    if (!plan.from_json(pj))
        return 0;
    size_t used = 0;
    auto   test = [&](const ConcPlan& c) {
        if (used >= budget)
            return false;
        ++used;
        return pred(c.to_json());
    };
    auto try_plan = [&](ConcPlan c) {
        c.normalize();
        if (c.to_json().dump() == plan.to_json().dump())
            return false;
        if (test(c))
        {
            plan = c;
            return true;
        }
        return false;
    };
    bool progress = true;
    while (progress && used < budget)
    {
        progress = false;
        // whole epochs
        for (size_t e = 0; e < plan.epochs.size() && plan.epochs.size() > 1;)
        {
            ConcPlan c = plan;
            c.epochs.erase(c.epochs.begin() + (long)e);
            if (try_plan(c))
                progress = true;
            else
                ++e;
        }
        // whole clients (keep at least one)
        for (int cl = plan.nclients - 1; cl >= 0 && plan.nclients > 1; --cl)
        {
            ConcPlan c = plan;
            for (auto& e : c.epochs)
                if ((size_t)cl < e.clients.size())
                    e.clients.erase(e.clients.begin() + cl);
            c.nclients = plan.nclients - 1;
            if (c.stall_client == cl)
                c.stall_client = -1;
            if (try_plan(c))
                progress = true;
        }
        // single ops
        for (size_t e = 0; e < plan.epochs.size(); ++e)
            for (size_t cl = 0; cl < plan.epochs[e].clients.size(); ++cl)
                for (size_t i = 0; i < plan.epochs[e].clients[cl].size();)
                {
                    ConcPlan c = plan;
                    c.epochs[e].clients[cl].erase(c.epochs[e].clients[cl].begin() + (long)i);
                    if (try_plan(c))
                        progress = true;
                    else
                        ++i;
                }
        for (size_t i = 0; i < plan.prefill.size();)
        {
            ConcPlan c = plan;
            c.prefill.erase(c.prefill.begin() + (long)i);
            if (try_plan(c))
                progress = true;
            else
                ++i;
        }
        // shorten ranges
        auto shorten = [&](std::function<Op&(ConcPlan&)> sel) {
            for (;;)
            {
                Op& cur = sel(plan);
                if (!cur.is_range() || cur.items.size() <= 1)
                    break;
                bool any = false;
                for (size_t j = 0; j < cur.items.size(); ++j)
                {
                    ConcPlan c = plan;
                    Op&      o = sel(c);
                    o.items.erase(o.items.begin() + (long)j);
                    if (try_plan(c))
                    {
                        any = progress = true;
                        break;
                    }
                }
                if (!any)
                    break;
            }
        };
        for (size_t e = 0; e < plan.epochs.size(); ++e)
            for (size_t cl = 0; cl < plan.epochs[e].clients.size(); ++cl)
                for (size_t i = 0; i < plan.epochs[e].clients[cl].size(); ++i)
                    shorten([=](ConcPlan& q) -> Op& { return q.epochs[e].clients[cl][i]; });
        // schedule: drop the stall, zero decisions from the tail, simplify the mode
        {
            ConcPlan c     = plan;
            c.stall_client = -1;
            if (try_plan(c))
                progress = true;
        }
        if (plan.relock_stall)
        {
            ConcPlan c     = plan;
            c.relock_stall = 0;
            if (try_plan(c))
                progress = true;
        }
        if (!plan.shared.empty())
        {
            ConcPlan c = plan;
            c.shared.clear();
            if (try_plan(c))
                progress = true;
        }
        if (!plan.hold.empty())
        {
            ConcPlan c = plan;
            c.hold.clear();
            if (try_plan(c))
                progress = true;
        }
        if (plan.mode == 2)
        {
            ConcPlan c = plan;
            c.change_points.clear();
            if (try_plan(c))
                progress = true;
        }
        for (size_t i = 0; i < plan.susp.size();)
        {
            ConcPlan c = plan;
            c.susp.erase(c.susp.begin() + (long)i);
            if (try_plan(c))
                progress = true;
            else
                ++i;
        }
        for (size_t i = 0; i < plan.fine.size();)
        {
            ConcPlan c = plan;
            c.fine.erase(c.fine.begin() + (long)i);
            if (try_plan(c))
                progress = true;
            else
                ++i;
        }
        {
            ConcPlan c = plan;
            c.list.clear();
            if (c.mode != 2 && try_plan(c))
                progress = true;
        }
        for (size_t cut = plan.list.size(); cut > 0 && used < budget; cut /= 2)
        {
            ConcPlan c = plan;
            c.list.resize(cut / 2);
            if (try_plan(c))
                progress = true;
            else
                break;
        }
        for (size_t i = plan.list.size(); i-- > 0 && used < budget;)
        {
            int32_t stay = plan.mode == 1 ? -1 : 0;
            if (plan.list[i] == stay)
                continue;
            ConcPlan c = plan;
            c.list[i]  = stay;
            if (try_plan(c))
                progress = true;
        }
        // times and configuration
        for (size_t e = 0; e < plan.epochs.size(); ++e)
        {
            ConcPlan c         = plan;
            c.epochs[e].adv_ns = 0;
            if (try_plan(c))
                progress = true;
        }
        auto cfgm = [&](std::function<void(ConcPlan&)> f) {
            ConcPlan c = plan;
            f(c);
            if (try_plan(c))
                progress = true;
        };
        cfgm([](ConcPlan& c) { c.clock_start = 0; });
        cfgm([](ConcPlan& c) { c.cfg.mlf = 1.0; });
        cfgm([](ConcPlan& c) {
            c.cfg.kt = KeyT::i;
            c.cfg.vt = ValT::i;
        });
        cfgm([](ConcPlan& c) {
            if (c.cfg.capacity > 1)
                --c.cfg.capacity;
        });
        cfgm([](ConcPlan& c) {
            if (c.cfg.universe > 1)
                --c.cfg.universe;
        });
        cfgm([](ConcPlan& c) { c.rd = {1u}; });
    }
    pj = plan.to_json();
    return used;
}

} // namespace sim
