#include "conc.hpp"
namespace sim
{
js::Value   conc_genplan(const std::string&, const std::string&, uint64_t, uint64_t, bool) { return js::Value::object(); }
uint64_t    conc_pairs_total() { return 0; }
ConcOutcome conc_run_plan_json(const js::Value&, std::string*) { return {}; }
size_t      conc_shrink_json(js::Value&, const std::function<bool(const js::Value&)>&, size_t) { return 0; }
bool        conc_is_tsan_build() { return false; }
} // namespace sim
