// See sched.hpp.  NO sanitizer instrumentation, NO STL in this file.
#include "sched.hpp"

#include <chrono>
#include <errno.h>
#include <linux/futex.h>
#include <pthread.h>
#include <stdio.h>
#include <stdlib.h>
#include <string.h>
#include <sys/syscall.h>
#include <unistd.h>

namespace sim
{
namespace sched
{
namespace
{
__thread int  tls_client = -1;
__thread bool tls_sim    = false;

// ---- calibration state (per process, deterministic: a function of the binary only)
constexpr uint32_t kMaxGuards = 1u << 21;
unsigned char      g_locked_bb[kMaxGuards];
uint32_t           g_locked_count;
bool               g_calibrating;
const void*        g_cal_lo;
const void*        g_cal_hi;
__thread int       tls_cal_depth = 0;
__thread int       tls_in_call   = 0;

// ---- seam state
int64_t  g_clock_ns;
uint32_t g_rd[64];
size_t   g_rd_n, g_rd_pos;
uint64_t g_clock_reads, g_rd_reads;
int64_t  g_drift_ns;    // armed: every further read of the clock returns a value this much later than the one before
uint64_t g_drift_reads; // reads since it was armed

// ---- scheduler state (only the baton holder touches it)
constexpr size_t kMaxEvents = 1u << 16;
constexpr size_t kMaxDec    = 1u << 16;
constexpr int    kMaxOwned  = 64;

enum CState
{
    C_IDLE = 0,
    C_READY,
};

struct Owned
{
    const void* m;
    int         owner;   // exclusive holder (mutex owner, rwlock writer), -1 if none
    uint32_t    readers; // bit per client holding an rwlock shared
    int         depth;   // exclusive acquisitions by the owner (recursive mutexes)
};

struct G
{
    Spec     spec;
    bool     active;
    int      n;
    int      word[kMaxClients + 1]; // futex words; [n] is the controller
    int      state[kMaxClients];
    const void* waiting[kMaxClients];
    bool        want_shared[kMaxClients]; // the pending request is a shared (reader) acquisition
    int      held[kMaxClients];
    int      held_own[kMaxClients]; // holds the container's own mutex (address inside the object)
    int      locks_in_op[kMaxClients]; // acquisitions of the container's own mutex within the current call
    int      dyn_stall_client;
    uint32_t dyn_stall_until;
    uint32_t relock;
    uint32_t bad_unlock; // unlock of the container's lock by a client that does not hold it
    int      cur_op[kMaxClients];
    Owned    owned[kMaxOwned];
    int      nowned;
    int      exit_flag;
    uint16_t epoch;
    Status   status;
    uint32_t steps;
    uint32_t ndec;
    uint32_t preempt, stalls, blocked;
    uint32_t fine_seen, fine_next, fine_fired;
    uint32_t susp_seen, susp_next, susp_fired;
    uint32_t bb_since_point[kMaxClients]; // basic blocks a client executed since its last schedule point
    uint32_t last_ran[kMaxClients];       // decision number at which the client was last given the baton
    uint32_t spin_yields;
    int      shared_holds[kMaxClients]; // shared acquisitions of the container's own lock currently held
    uint32_t shared_seen, shared_next, shared_fired;
    uint32_t hold_seen, hold_next, hold_fired;
    int      prio[kMaxClients];
    int      low_prio;
    Event    ev[kMaxEvents];
    size_t   nev;
    int32_t  chosen[kMaxDec];
    uint64_t thash;
    long     os_tid[kMaxClients];
} g;

inline long futex(int* addr, int op, int val) { return syscall(SYS_futex, addr, op, val, nullptr, nullptr, 0); }

void wake(int idx)
{
    __atomic_store_n(&g.word[idx], 1, __ATOMIC_SEQ_CST);
    futex(&g.word[idx], FUTEX_WAKE_PRIVATE, 1);
}
void wait_self(int idx)
{
    while (__atomic_load_n(&g.word[idx], __ATOMIC_SEQ_CST) == 0)
        futex(&g.word[idx], FUTEX_WAIT_PRIVATE, 0);
    __atomic_store_n(&g.word[idx], 0, __ATOMIC_SEQ_CST);
}

void log_event(int client, uint8_t kind, int op, uint16_t aux)
{
    if (g.nev < kMaxEvents)
    {
        Event& e = g.ev[g.nev];
        e.seq    = (uint32_t)g.nev;
        e.client = (int8_t)client;
        e.kind   = kind;
        e.op     = (int16_t)op;
        e.epoch  = g.epoch;
        e.aux    = aux;
        ++g.nev;
    }
    unsigned char b[2] = {(unsigned char)(client + 1), kind};
    for (unsigned char c : b)
    {
        g.thash ^= c;
        g.thash *= 0x100000001b3ULL;
    }
}

Owned* find_owned(const void* m)
{
    for (int i = 0; i < g.nowned; ++i)
        if (g.owned[i].m == m)
            return &g.owned[i];
    return nullptr;
}
Owned* get_owned(const void* m)
{
    if (Owned* o = find_owned(m))
        return o;
    if (g.nowned >= kMaxOwned)
        return nullptr;
    g.owned[g.nowned] = Owned{m, -1, 0, 0};
    return &g.owned[g.nowned++];
}
void drop_if_free(const void* m)
{
    for (int i = 0; i < g.nowned; ++i)
        if (g.owned[i].m == m && g.owned[i].owner < 0 && g.owned[i].readers == 0)
        {
            g.owned[i] = g.owned[g.nowned - 1];
            --g.nowned;
            return;
        }
}
void set_owner(const void* m, int c)
{
    if (Owned* o = get_owned(m))
    {
        if (o->owner == c)
            ++o->depth;
        else
        {
            o->owner = c;
            o->depth = 1;
        }
    }
}
void clear_owner(const void* m)
{
    if (Owned* o = find_owned(m))
    {
        if (o->depth > 1)
        {
            --o->depth;
            return;
        }
        o->owner = -1;
        o->depth = 0;
    }
    drop_if_free(m);
}
// would client c have to wait for m (exclusive, or shared when `shared`)?
bool must_wait(const void* m, int c, bool shared)
{
    Owned* o = find_owned(m);
    if (!o)
        return false;
    if (o->owner >= 0 && o->owner != c)
        return true;
    if (!shared && (o->readers & ~(1u << c)) != 0)
        return true;
    return false;
}

bool runnable(int i)
{
    if (g.state[i] != C_READY)
        return false;
    if (g.waiting[i] != nullptr && must_wait(g.waiting[i], i, g.want_shared[i]))
        return false;
    return true;
}

// Returns the client to run next, or -2 if none is runnable.
// force_switch: prefer any other runnable client over the current one.
int choose(int c, bool force_switch = false)
{
    int r[kMaxClients], nr = 0;
    for (int i = 0; i < g.n; ++i)
        if (runnable(i))
            r[nr++] = i;
    uint32_t k = g.ndec++;
    if (nr == 0)
    {
        if (k < kMaxDec)
            g.chosen[k] = -2;
        return -2;
    }
    bool cur_runnable = false;
    for (int i = 0; i < nr; ++i)
        if (r[i] == c)
            cur_runnable = true;

    int pick = -1;
    if (g.spec.mode == 1)
    {
        int want = (k < g.spec.nlist) ? g.spec.list[k] : -1;
        for (int i = 0; i < nr; ++i)
            if (r[i] == want)
                pick = want;
        if (pick < 0)
            pick = cur_runnable ? c : r[0];
    }
    else
    {
        // stall fault: the victim is denied the baton while the window is open
        int  f[kMaxClients], nf = 0;
        bool stalled = false;
        int victim = -1;
        if (g.dyn_stall_client >= 0 && k < g.dyn_stall_until)
            victim = g.dyn_stall_client;
        else if (g.spec.stall_client >= 0 && k >= g.spec.stall_from && k < g.spec.stall_from + g.spec.stall_len)
            victim = g.spec.stall_client;
        if (victim >= 0 && nr > 1)
        {
            for (int i = 0; i < nr; ++i)
                if (r[i] != victim)
                    f[nf++] = r[i];
                else
                    stalled = true;
        }
        if (!stalled)
        {
            nf = nr;
            memcpy(f, r, sizeof(int) * (size_t)nr);
        }
        else
            ++g.stalls;
        bool cur_ok = false;
        for (int i = 0; i < nf; ++i)
            if (f[i] == c)
                cur_ok = true;
        if (g.spec.mode == 2)
        {
            for (size_t i = 0; i < g.spec.nchange; ++i)
                if (g.spec.change_points[i] == k && c >= 0)
                    g.prio[c] = --g.low_prio;
            pick = f[0];
            for (int i = 1; i < nf; ++i)
                if (g.prio[f[i]] > g.prio[pick])
                    pick = f[i];
        }
        else
        {
            int d = (k < g.spec.nlist) ? g.spec.list[k] : 0;
            if (d <= 0)
                pick = cur_ok ? c : f[0];
            else
                pick = f[(d - 1) % nf];
        }
    }
    if (force_switch && nr > 1 && g.spec.mode != 1)
    {
        // whoever has not run for the longest time (never the yielding client itself): under any
        // priority scheme a parked lock holder is reached after at most n - 1 forced yields
        int best = -1;
        for (int i = 0; i < nr; ++i)
            if (r[i] != c && (best < 0 || g.last_ran[r[i]] < g.last_ran[best]))
                best = r[i];
        if (best >= 0)
            pick = best;
    }
    if (pick >= 0)
        g.last_ran[pick] = k + 1;
    if (k < kMaxDec)
        g.chosen[k] = pick;
    if (cur_runnable && pick != c)
        ++g.preempt;
    return pick;
}

bool all_idle()
{
    for (int i = 0; i < g.n; ++i)
        if (g.state[i] != C_IDLE)
            return false;
    return true;
}

// The calling client gives up the baton according to the next decision.
void yield_point(int self, bool force_switch = false)
{
    if (++g.steps > g.spec.step_budget)
    {
        g.status = ST_STEP_BUDGET;
        wake(g.n);
        for (;;)
            wait_self(self); // never resumed
    }
    int next = choose(self, force_switch);
    if (next == self)
        return;
    if (next == -2)
    {
        if (!all_idle())
            g.status = ST_DEADLOCK;
        wake(g.n);
    }
    else
        wake(next);
    wait_self(self);
}

void point(uint8_t kind, int op, uint16_t aux)
{
    int self = tls_client;
    g.bb_since_point[self] = 0;
    log_event(self, kind, op, aux);
    yield_point(self, kind == EV_FINE && aux == 1);
}
} // namespace

// ------------------------------------------------------------------ seams ----
void     sim_thread(bool on) { tls_sim = on; }
void     clock_set(int64_t ns) { g_clock_ns = ns; }
int64_t  clock_get() { return g_clock_ns; }
uint64_t clock_reads() { return g_clock_reads; }
void     clock_drift(int64_t per_read_ns)
{
    g_drift_ns    = per_read_ns;
    g_drift_reads = 0;
}
uint64_t clock_drift_reads() { return g_drift_reads; }
uint64_t rd_reads() { return g_rd_reads; }
void     rd_set(const uint32_t* vals, size_t n)
{
    if (n > 64)
        n = 64;
    memcpy(g_rd, vals, n * sizeof(uint32_t));
    g_rd_n   = n;
    g_rd_pos = 0;
}
void rd_rewind() { g_rd_pos = 0; }

// -------------------------------------------------------------- controller ----
void begin_run(const Spec& spec)
{
    g.spec      = spec;
    g.n         = spec.nclients;
    g.active    = true;
    g.exit_flag = 0;
    g.epoch     = 0;
    g.status    = ST_OK;
    g.steps     = 0;
    g.ndec      = 0;
    g.preempt = g.stalls = g.blocked = 0;
    g.fine_seen = g.fine_next = g.fine_fired = 0;
    g.susp_seen = g.susp_next = g.susp_fired = 0;
    g.spin_yields = 0;
    g.shared_seen = g.shared_next = g.shared_fired = 0;
    g.hold_seen = g.hold_next = g.hold_fired = 0;
    for (int i = 0; i < kMaxClients; ++i)
        g.shared_holds[i] = 0;
    for (int i = 0; i < kMaxClients; ++i)
    {
        g.bb_since_point[i] = 0;
        g.last_ran[i]       = 0;
    }
    g.dyn_stall_client = -1;
    g.dyn_stall_until  = 0;
    g.relock           = 0;
    g.bad_unlock       = 0;
    g.nev                            = 0;
    g.nowned                         = 0;
    g.thash                          = 0xcbf29ce484222325ULL;
    g.low_prio                       = 0;
    for (int i = 0; i <= kMaxClients; ++i)
        g.word[i] = 0;
    for (int i = 0; i < kMaxClients; ++i)
    {
        g.state[i]   = C_IDLE;
        g.waiting[i] = nullptr;
        g.want_shared[i] = false;
        g.held[i]    = 0;
        g.held_own[i] = 0;
        g.locks_in_op[i] = 0;
        g.cur_op[i]  = -1;
        g.prio[i]    = spec.prio[i];
    }
}

Status run_epoch(uint16_t epoch, const bool* has_work)
{
    g.epoch  = epoch;
    bool any = false;
    for (int i = 0; i < g.n; ++i)
        if (has_work[i])
        {
            g.state[i] = C_READY;
            any        = true;
        }
    log_event(-1, EV_EPOCH_START, -1, 0);
    if (!any)
        return g.status;
    int next = choose(-1);
    if (next < 0)
        return g.status;
    wake(next);
    wait_self(g.n);
    return g.status;
}

void end_run()
{
    g.exit_flag = 1;
    if (g.status == ST_OK)
        for (int i = 0; i < g.n; ++i)
            wake(i);
    g.active = false;
}

// ------------------------------------------------------------------ client ----
bool client_begin(int id)
{
    tls_client   = id;
    tls_sim      = true;
    g.os_tid[id] = (long)syscall(SYS_gettid);
    wait_self(id);
    return !g.exit_flag;
}

uint16_t current_epoch() { return g.epoch; }

bool client_epoch_done()
{
    int self      = tls_client;
    g.state[self] = C_IDLE;
    g.cur_op[self] = -1;
    log_event(self, EV_EPOCH_DONE, -1, 0);
    int next = choose(self);
    if (next == -2)
    {
        if (!all_idle())
            g.status = ST_DEADLOCK;
        wake(g.n);
    }
    else
        wake(next);
    wait_self(self);
    return !g.exit_flag;
}

void client_leave()
{
    tls_client = -1;
    tls_sim    = false;
}

void point_invoke(int op)
{
    g.cur_op[tls_client]      = op;
    g.locks_in_op[tls_client] = 0;
    point(EV_INVOKE, op, 0);
}
void point_return(int op)
{
    point(EV_RETURN, op, 0);
    g.cur_op[tls_client] = -1;
}

const Event* events(size_t* n)
{
    *n = g.nev;
    return g.ev;
}
const int32_t* chosen(size_t* n)
{
    *n = g.ndec < kMaxDec ? g.ndec : kMaxDec;
    return g.chosen;
}
uint32_t preemptions() { return g.preempt; }
uint32_t stalls_fired() { return g.stalls; }
uint32_t blocked_fired() { return g.blocked; }
uint32_t relock_fired() { return g.relock; }
uint32_t bad_unlocks() { return g.bad_unlock; }
uint32_t spin_yields() { return g.spin_yields; }
uint32_t shared_seen() { return g.shared_seen; }
uint32_t shared_fired() { return g.shared_fired; }
uint32_t hold_seen() { return g.hold_seen; }
uint32_t hold_fired() { return g.hold_fired; }
uint32_t fine_fired() { return g.fine_fired; }
uint32_t susp_seen() { return g.susp_seen; }
uint32_t susp_fired() { return g.susp_fired; }
uint32_t calib_locked_blocks() { return g_locked_count; }
void     calib_begin(const void* lo, const void* hi)
{
    g_cal_lo      = lo;
    g_cal_hi      = hi;
    tls_cal_depth = 0;
    g_calibrating = true;
}
void calib_end() { g_calibrating = false; }
void call_enter() { ++tls_in_call; }
void call_leave()
{
    if (tls_in_call > 0)
        --tls_in_call;
}
uint32_t fine_seen() { return g.fine_seen; }
uint64_t trace_hash() { return g.thash; }
int      client_of_os_tid(long os)
{
    for (int i = 0; i < g.n; ++i)
        if (g.os_tid[i] == os)
            return i;
    return -1;
}

} // namespace sched
} // namespace sim

// ===========================================================================
// Link-time seams (-Wl,--wrap=...)
using namespace sim::sched;

extern "C"
{
    int __real_pthread_mutex_lock(pthread_mutex_t*);
    int __real_pthread_mutex_unlock(pthread_mutex_t*);
    int __real_pthread_mutex_trylock(pthread_mutex_t*);

    int __wrap_pthread_mutex_lock(pthread_mutex_t* m)
    {
        int self = tls_client;
        if (self < 0 || !g.active)
        {
            if (g_calibrating && (const void*)m >= g_cal_lo && (const void*)m < g_cal_hi)
                ++tls_cal_depth;
            return __real_pthread_mutex_lock(m);
        }
        bool in_range = ((const void*)m >= g.spec.obj_lo && (const void*)m < g.spec.obj_hi);
        bool busy     = must_wait(m, self, false);
        if (in_range || busy)
        {
            if (busy)
                ++g.blocked;
            g.waiting[self]     = m;
            g.want_shared[self] = false;
            if (in_range && g.locks_in_op[self] > 0 && g.spec.relock_stall > 0 && g.spec.mode != 1)
            {
                // the call gave the lock up and wants it again: whatever it learned under the first
                // acquisition can go stale now; let the others run for a while
                ++g.relock;
                g.dyn_stall_client = self;
                g.dyn_stall_until  = g.ndec + g.spec.relock_stall;
            }
            point(in_range ? EV_LOCK_REQ : EV_BLOCKED, g.cur_op[self], 0);
            g.waiting[self] = nullptr;
        }
        int r = __real_pthread_mutex_lock(m);
        set_owner(m, self);
        ++g.held[self];
        if (in_range)
        {
            ++g.held_own[self];
            ++g.locks_in_op[self];
            log_event(self, EV_LOCK_ACQ, g.cur_op[self], 0);
        }
        return r;
    }

    int __wrap_pthread_mutex_trylock(pthread_mutex_t* m)
    {
        int self = tls_client;
        if (self < 0 || !g.active)
            return __real_pthread_mutex_trylock(m);
        if (must_wait(m, self, false))
            return EBUSY;
        int r = __real_pthread_mutex_trylock(m);
        if (r == 0)
        {
            set_owner(m, self);
            ++g.held[self];
        }
        return r;
    }

    int __wrap_pthread_mutex_unlock(pthread_mutex_t* m)
    {
        int self = tls_client;
        if (self < 0 || !g.active)
        {
            if (g_calibrating && (const void*)m >= g_cal_lo && (const void*)m < g_cal_hi && tls_cal_depth > 0)
                --tls_cal_depth;
            return __real_pthread_mutex_unlock(m);
        }
        bool in_range = ((const void*)m >= g.spec.obj_lo && (const void*)m < g.spec.obj_hi);
        if (in_range)
        {
            // releasing the container's lock without holding it (double unlock, unlock on a path that
            // never locked): undefined for a default mutex, and it ends somebody else's critical section
            Owned* o = find_owned(m);
            if (!o || o->owner != self)
                ++g.bad_unlock;
        }
        clear_owner(m);
        if (g.held[self] > 0)
            --g.held[self];
        if (in_range && g.held_own[self] > 0)
            --g.held_own[self];
        int r = __real_pthread_mutex_unlock(m);
        if (in_range)
            point(EV_UNLOCK, g.cur_op[self], 0);
        return r;
    }

    // ---- pthread_rwlock_* (std::shared_mutex): same treatment, with shared holders
    int __real_pthread_rwlock_rdlock(pthread_rwlock_t*);
    int __real_pthread_rwlock_wrlock(pthread_rwlock_t*);
    int __real_pthread_rwlock_tryrdlock(pthread_rwlock_t*);
    int __real_pthread_rwlock_trywrlock(pthread_rwlock_t*);
    int __real_pthread_rwlock_unlock(pthread_rwlock_t*);

    static int rw_acquire(pthread_rwlock_t* l, bool shared)
    {
        int self = tls_client;
        if (self < 0 || !g.active)
        {
            if (g_calibrating && (const void*)l >= g_cal_lo && (const void*)l < g_cal_hi)
                ++tls_cal_depth;
            return shared ? __real_pthread_rwlock_rdlock(l) : __real_pthread_rwlock_wrlock(l);
        }
        bool in_range = ((const void*)l >= g.spec.obj_lo && (const void*)l < g.spec.obj_hi);
        bool busy     = must_wait(l, self, shared);
        if (in_range || busy)
        {
            if (busy)
                ++g.blocked;
            g.waiting[self]     = l;
            g.want_shared[self] = shared;
            if (in_range && g.locks_in_op[self] > 0 && g.spec.relock_stall > 0 && g.spec.mode != 1)
            {
                ++g.relock;
                g.dyn_stall_client = self;
                g.dyn_stall_until  = g.ndec + g.spec.relock_stall;
            }
            point(in_range ? EV_LOCK_REQ : EV_BLOCKED, g.cur_op[self], shared ? 1 : 0);
            g.waiting[self] = nullptr;
        }
        int r = shared ? __real_pthread_rwlock_rdlock(l) : __real_pthread_rwlock_wrlock(l);
        if (Owned* o = get_owned(l))
        {
            if (shared)
                o->readers |= (1u << self);
            else
                o->owner = self;
        }
        ++g.held[self];
        if (in_range)
        {
            ++g.held_own[self];
            ++g.locks_in_op[self];
            if (shared)
                ++g.shared_holds[self];
            log_event(self, EV_LOCK_ACQ, g.cur_op[self], shared ? 1 : 0);
        }
        return r;
    }
    int __wrap_pthread_rwlock_rdlock(pthread_rwlock_t* l) { return rw_acquire(l, true); }
    int __wrap_pthread_rwlock_wrlock(pthread_rwlock_t* l) { return rw_acquire(l, false); }
    static int rw_try(pthread_rwlock_t* l, bool shared)
    {
        int self = tls_client;
        if (self < 0 || !g.active)
            return shared ? __real_pthread_rwlock_tryrdlock(l) : __real_pthread_rwlock_trywrlock(l);
        if (must_wait(l, self, shared))
            return EBUSY;
        int r = shared ? __real_pthread_rwlock_tryrdlock(l) : __real_pthread_rwlock_trywrlock(l);
        if (r == 0)
        {
            if (Owned* o = get_owned(l))
            {
                if (shared)
                    o->readers |= (1u << self);
                else
                    o->owner = self;
            }
            ++g.held[self];
            if ((const void*)l >= g.spec.obj_lo && (const void*)l < g.spec.obj_hi)
            {
                ++g.held_own[self];
                ++g.locks_in_op[self];
            }
        }
        return r;
    }
    int __wrap_pthread_rwlock_tryrdlock(pthread_rwlock_t* l) { return rw_try(l, true); }
    int __wrap_pthread_rwlock_trywrlock(pthread_rwlock_t* l) { return rw_try(l, false); }
    int __wrap_pthread_rwlock_unlock(pthread_rwlock_t* l)
    {
        int self = tls_client;
        if (self < 0 || !g.active)
        {
            if (g_calibrating && (const void*)l >= g_cal_lo && (const void*)l < g_cal_hi && tls_cal_depth > 0)
                --tls_cal_depth;
            return __real_pthread_rwlock_unlock(l);
        }
        bool in_range = ((const void*)l >= g.spec.obj_lo && (const void*)l < g.spec.obj_hi);
        if (in_range)
        {
            Owned* o = find_owned(l);
            if (!o || (o->owner != self && !(o->readers & (1u << self))))
                ++g.bad_unlock;
        }
        if (Owned* o = find_owned(l))
        {
            if (o->owner == self)
                o->owner = -1;
            else
            {
                o->readers &= ~(1u << self);
                if (in_range && g.shared_holds[self] > 0)
                    --g.shared_holds[self];
            }
        }
        drop_if_free(l);
        if (g.held[self] > 0)
            --g.held[self];
        if (in_range && g.held_own[self] > 0)
            --g.held_own[self];
        int r = __real_pthread_rwlock_unlock(l);
        if (in_range)
            point(EV_UNLOCK, g.cur_op[self], 0);
        return r;
    }

    // std::chrono::steady_clock::now()
    std::chrono::steady_clock::time_point __real__ZNSt6chrono3_V212steady_clock3nowEv();
    std::chrono::steady_clock::time_point __wrap__ZNSt6chrono3_V212steady_clock3nowEv()
    {
        if (!tls_sim)
            return __real__ZNSt6chrono3_V212steady_clock3nowEv();
        ++g_clock_reads;
        int self = tls_client;
        if (self >= 0 && g.active && g.held[self] == 0)
            point(EV_NOW, g.cur_op[self], 0);
        int64_t t = g_clock_ns;
        if (g_drift_ns)
            t += (int64_t)(g_drift_reads++) * g_drift_ns; // the first read still returns the step's instant
        return std::chrono::steady_clock::time_point(std::chrono::nanoseconds(t));
    }

    // -fsanitize-coverage=trace-pc-guard callbacks of the container translation units:
    // every basic block executed by a client inside a call, while it holds no lock, is a
    // potential schedule point (this is what lets code that forgot its lock interleave).
    void __sanitizer_cov_trace_pc_guard_init(uint32_t* start, uint32_t* stop)
    {
        static uint32_t n;
        if (start == stop || *start)
            return;
        for (uint32_t* x = start; x < stop; ++x)
            *x = ++n;
    }
    void __sanitizer_cov_trace_pc_guard(uint32_t* guard)
    {
        uint32_t id = *guard;
        if (g_calibrating)
        {
            // "locked code": a basic block executed, inside a call into the container, while the
            // container's own mutex was held
            if (id < kMaxGuards && tls_cal_depth > 0 && tls_in_call > 0 && !g_locked_bb[id])
            {
                g_locked_bb[id] = 1;
                ++g_locked_count;
            }
            return;
        }
        int self = tls_client;
        if (self < 0 || !g.active)
            return;
        if (g.cur_op[self] < 0 || g.state[self] != C_READY)
            return;
        // (0) a client that executes very many basic blocks inside one call without reaching any
        //     schedule point is busy-waiting for something only a parked client can provide (a spin
        //     lock, an atomic flag): let the others run, as a real scheduler eventually would
        if (++g.bb_since_point[self] > 200000 && g.held[self] == g.held_own[self])
        {
            ++g.spin_yields;
            point(EV_FINE, g.cur_op[self], 1);
            return;
        }
        // (0b) under a shared hold of the container's lock other readers may be inside the same
        //      critical section: park here at the ordinals the plan names and let another client in
        if (g.shared_holds[self] > 0 && g.held[self] == g.held_own[self] && tls_in_call > 0)
        {
            uint32_t n = g.shared_seen++;
            while (g.shared_next < g.spec.nshared && g.spec.shared[g.shared_next] < n)
                ++g.shared_next;
            if (g.shared_next < g.spec.nshared && g.spec.shared[g.shared_next] == n)
            {
                ++g.shared_next;
                ++g.shared_fired;
                point(EV_FINE, g.cur_op[self], 1);
                return;
            }
        }
        // (0c) inside the caller's own exclusive critical section: clients that need the lock stay blocked,
        //      but a method that takes no lock can run right here, in the middle of a half-applied operation
        //      (on a tree where every method locks, the forced switch finds nobody to switch to)
        if (g.spec.nhold && g.held_own[self] > 0 && g.shared_holds[self] == 0 && g.held[self] == g.held_own[self] && tls_in_call > 0)
        {
            uint32_t n = g.hold_seen++;
            while (g.hold_next < g.spec.nhold && g.spec.hold[g.hold_next] < n)
                ++g.hold_next;
            if (g.hold_next < g.spec.nhold && g.spec.hold[g.hold_next] == n)
            {
                ++g.hold_next;
                ++g.hold_fired;
                point(EV_FINE, g.cur_op[self], 1);
                return;
            }
        }
        else if (g.held_own[self] > 0 && g.shared_holds[self] == 0 && g.held[self] == g.held_own[self] && tls_in_call > 0)
            ++g.hold_seen;
        // (1) code that calibration saw under the container's lock, now running inside a call
        //     without it: the locking discipline is not uniform for this code
        if (g.held_own[self] == 0 && tls_in_call > 0 && id < kMaxGuards && g_locked_bb[id])
        {
            uint32_t n = g.susp_seen++;
            while (g.susp_next < g.spec.nsusp && g.spec.susp[g.susp_next] < n)
                ++g.susp_next;
            if (g.susp_next < g.spec.nsusp && g.spec.susp[g.susp_next] == n && g.held[self] == 0)
            {
                ++g.susp_next;
                ++g.susp_fired;
                point(EV_FINE, g.cur_op[self], 1);
                return;
            }
        }
        // (2) any basic block inside a call, at the counts the plan asks for.  Also while the container's
        //     lock is held: clients that need the lock stay blocked, but a method that takes no lock can
        //     then run in the middle of somebody else's critical section, as it can on real hardware.
        //     Never while any other mutex is held (libstdc++'s debug mode takes pool mutexes, partly from
        //     inside libstdc++.so where the simulator cannot see them: parking there would block for real).
        if (g.spec.nfine == 0 || tls_in_call == 0 || g.held[self] != g.held_own[self])
            return;
        uint32_t n = g.fine_seen++;
        while (g.fine_next < g.spec.nfine && g.spec.fine[g.fine_next] < n)
            ++g.fine_next;
        if (g.fine_next < g.spec.nfine && g.spec.fine[g.fine_next] == n)
        {
            ++g.fine_next;
            ++g.fine_fired;
            point(EV_FINE, g.cur_op[self], 0);
        }
    }

    // unsigned int std::random_device::_M_getval()
    unsigned int __real__ZNSt13random_device9_M_getvalEv(void*);
    unsigned int __wrap__ZNSt13random_device9_M_getvalEv(void* self)
    {
        if (!tls_sim || g_rd_n == 0)
            return __real__ZNSt13random_device9_M_getvalEv(self);
        ++g_rd_reads;
        unsigned int v = g_rd[g_rd_pos % g_rd_n];
        ++g_rd_pos;
        return v;
    }
}
