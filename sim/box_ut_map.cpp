#include "box_impl.hpp"
#include "cappuccino/ut_map.hpp"
namespace sim
{
#define T_OF(K, V, TS) cappuccino::ut_map<K, V, TS>
SIM_BOX_FACTORY(make_ut_map, Cont::ut_map, T_OF)
} // namespace sim
