// Seeded generation of sequential plans (swarm style) and plan shrinking.
#include "seq.hpp"
#include "box.hpp"

#include <algorithm>

namespace sim
{
namespace
{
constexpr int64_t MS = 1000000;

const std::vector<Cont> kAll = {Cont::lru,  Cont::mru,   Cont::fifo,   Cont::lfu,   Cont::lfuda,
                                Cont::rr,   Cont::tlru,  Cont::utlru,  Cont::ut_map, Cont::ut_set};
const std::vector<Cont> kTtl = {Cont::tlru, Cont::utlru, Cont::ut_map, Cont::ut_set};
} // namespace

GenProfile profile_for(const std::string& prop, bool thorough)
{
    GenProfile p;
    p.prop     = prop;
    p.thorough = thorough;
    p.conts    = kAll;
    if (prop == "C04" || prop == "C05" || prop == "C17")
        p.conts = kTtl;
    else if (prop == "C10")
        p.conts = {Cont::lru, Cont::lru, Cont::tlru, Cont::utlru};
    else if (prop == "C11")
        p.conts = {Cont::lfu, Cont::lfu, Cont::lfuda};
    else if (prop == "C12")
        p.conts = {Cont::fifo};
    else if (prop == "C13")
        p.conts = {Cont::mru};
    else if (prop == "C14")
        p.conts = {Cont::lfuda};
    else if (prop == "C15")
        p.conts = {Cont::rr};
    else if (prop == "C16")
        p.conts = {Cont::tlru, Cont::utlru};
    else if (prop == "C20")
        p.conts = {Cont::utlru, Cont::ut_map};
    if (thorough)
    {
        p.max_steps    = 120;
        p.max_capacity = 12;
    }
    return p;
}

namespace
{
struct Gen
{
    Rng               r;
    const GenProfile& prof;
    SeqPlan           p;
    Traits            tr;
    uint32_t          next_val{1};
    int64_t           now{0};
    int64_t           cur_ttl{0};
    std::vector<int64_t> cands; // boundary instants worth landing on
    std::vector<int64_t> ttl_palette;
    std::set<int>        maybe_live;
    std::map<int, uint32_t> last_val; // the value the plan wrote last under each key
    unsigned             w[(int)OpKind::COUNT]{};
    unsigned             tw[6]{}; // freeze, small, boundary, boundary-1, boundary+1, jump
    unsigned             splice_num{0}, nonlive_num{0}, drift_num{0};
    bool                 big_ranges{false}, huge{false};
    int                  hot{2};

    Gen(uint64_t seed, const GenProfile& pf) : r(seed), prof(pf) {}

    int pick_key()
    {
        if (r.chance(2, 3))
            return (int)r.below((uint64_t)std::min<int>((int)p.cfg.universe, hot));
        return (int)r.below(p.cfg.universe);
    }
    int pick_probably_live()
    {
        if (maybe_live.empty() || r.chance(1, 8))
            return pick_key();
        auto it = maybe_live.begin();
        std::advance(it, (long)r.below(maybe_live.size()));
        return *it;
    }
    int pick_probably_absent()
    {
        for (int tries = 0; tries < 4; ++tries)
        {
            int k = (int)r.below(p.cfg.universe);
            if (!maybe_live.count(k))
                return k;
        }
        return pick_key();
    }
    int pick_allow()
    {
        unsigned x = (unsigned)r.below(8);
        return x < 4 ? ALLOW_BOTH : x < 6 ? ALLOW_INSERT : ALLOW_UPDATE;
    }
    int64_t pick_ttl() { return r.pick(ttl_palette); }

    void add_cand(int64_t t)
    {
        cands.push_back(t);
        if (cands.size() > 12)
            cands.erase(cands.begin());
    }

    void note_write(int key, int64_t ttl_ms)
    {
        maybe_live.insert(key);
        if (tr.ttl == TtlMode::per_entry)
            add_cand(now + ttl_ms * MS);
        else if (tr.ttl == TtlMode::uniform)
            add_cand(now + cur_ttl * MS);
        if (tr.policy == Policy::lfuda)
            add_cand(now + p.cfg.tick_ms * MS);
    }

    std::vector<Item> gen_items(bool with_vals)
    {
        std::vector<Item> v;
        unsigned          cap = std::max<unsigned>(1, p.cfg.capacity);
        size_t            n;
        unsigned          sel = (unsigned)r.below(10);
        if (sel == 0)
            n = 0;
        else if (sel < 6)
            n = (size_t)r.range(1, 3);
        else if (sel < 9)
            n = (size_t)r.range(1, cap + 1);
        else
            n = (size_t)r.range(cap, 2 * cap);
        if (big_ranges && r.chance(1, 3))
            n = (size_t)r.range(40, 150);
        if (huge && r.chance(1, 2))
        {
            // a run of distinct keys covering most of the universe
            n        = (size_t)r.range(p.cfg.universe / 2, p.cfg.universe);
            int base = (int)r.below(p.cfg.universe);
            for (size_t i = 0; i < n; ++i)
            {
                Item it;
                it.key = (int)((base + i) % p.cfg.universe);
                if (with_vals)
                {
                    it.val    = next_val++;
                    it.ttl_ms = pick_ttl();
                }
                v.push_back(it);
            }
            return v;
        }
        for (size_t i = 0; i < n; ++i)
        {
            Item it;
            it.key = (i > 0 && r.chance(1, 6)) ? v[r.below(v.size())].key : pick_key();
            if (with_vals)
            {
                it.val    = next_val++;
                it.ttl_ms = pick_ttl();
            }
            v.push_back(it);
        }
        return v;
    }

    int pick_form(OpKind k)
    {
        std::vector<int> f;
        switch (k)
        {
            case OpKind::insert_range:
                f = {0, 0, 1};
                if (p.cfg.cont != Cont::tlru)
                    f.push_back(2);
                if (tr.iter_forms)
                {
                    f.push_back(3);
                    f.push_back(3);
                }
                break;
            case OpKind::erase_range:
                f = {0, 0, 1};
                if (tr.iter_forms)
                {
                    f.push_back(3);
                    f.push_back(3);
                }
                break;
            case OpKind::find_range:
                f = {0, 0, 1};
                if (tr.iter_forms)
                {
                    f.push_back(3);
                    f.push_back(4);
                }
                break;
            default:
                f = {0, 0, 2, 5, 6};
                if (tr.iter_forms)
                {
                    f.push_back(3);
                    f.push_back(3);
                }
                break;
        }
        return r.pick(f);
    }

    bool peek_capable() const { return tr.has_peek; }

    Op gen_op(OpKind k, bool& splice)
    {
        Op op;
        op.kind = k;
        switch (k)
        {
            case OpKind::insert:
            {
                op.allow  = pick_allow();
                op.val    = next_val++;
                op.ttl_ms = pick_ttl();
                if (op.allow == ALLOW_INSERT && r.chance(1, 2))
                    op.key = pick_probably_live(); // aim at a rejection
                else if (op.allow == ALLOW_UPDATE && r.chance(1, 3))
                    op.key = pick_probably_absent();
                else
                    op.key = pick_key();
                if (op.allow != ALLOW_BOTH)
                    splice = r.chance(splice_num, 4);
                // now and then write the very value the key already holds (an update that changes nothing)
                if (last_val.count(op.key) && (op.allow & ALLOW_UPDATE) && r.chance(1, 8))
                    op.val = last_val[op.key];
                last_val[op.key] = op.val;
                if (op.allow != ALLOW_UPDATE)
                    note_write(op.key, op.ttl_ms);
                else if (maybe_live.count(op.key))
                    note_write(op.key, op.ttl_ms);
                break;
            }
            case OpKind::insert_range:
                op.allow = pick_allow();
                op.items = gen_items(true);
                op.form  = pick_form(k);
                if (op.allow != ALLOW_BOTH)
                    splice = r.chance(splice_num, 4);
                for (auto& it : op.items)
                    if (op.allow != ALLOW_UPDATE || maybe_live.count(it.key))
                        note_write(it.key, it.ttl_ms);
                break;
            case OpKind::erase:
                op.key = r.chance(1, 3) ? pick_probably_absent() : pick_probably_live();
                splice = r.chance(splice_num, 4);
                maybe_live.erase(op.key);
                break;
            case OpKind::erase_range:
                op.items = gen_items(false);
                op.form  = pick_form(k);
                splice   = r.chance(splice_num, 4);
                for (auto& it : op.items)
                    maybe_live.erase(it.key);
                break;
            case OpKind::find:
            case OpKind::find_uc:
                op.peek = peek_capable() && r.chance(1, 3);
                op.key  = r.chance(1, 4) ? pick_probably_absent() : pick_probably_live();
                splice  = r.chance(splice_num, 4);
                if (!op.peek && tr.policy == Policy::lfuda)
                    add_cand(now + p.cfg.tick_ms * MS);
                break;
            case OpKind::find_range:
            case OpKind::find_fill:
                op.peek  = peek_capable() && r.chance(1, 3);
                op.items = gen_items(false);
                op.form  = pick_form(k);
                splice   = r.chance(splice_num, 4);
                if (!op.peek && tr.policy == Policy::lfuda)
                    add_cand(now + p.cfg.tick_ms * MS);
                break;
            case OpKind::update_ttl:
                op.ttl_ms = pick_ttl();
                cur_ttl   = op.ttl_ms;
                break;
            case OpKind::clear:
                maybe_live.clear();
                break;
            default:
                break;
        }
        return op;
    }

    int64_t unit_ns() const
    {
        return (tr.policy == Policy::lfuda ? p.cfg.tick_ms : std::max<int64_t>(1, cur_ttl ? cur_ttl : ttl_palette[0])) * MS;
    }

    int64_t gen_adv()
    {
        bool timed = tr.ttl != TtlMode::none || tr.policy == Policy::lfuda;
        if (!timed)
            return r.chance(1, 10) ? r.range(0, 5 * MS) : 0;
        unsigned tot = 0;
        for (auto x : tw)
            tot += x;
        unsigned x = (unsigned)r.below(tot), sel = 0;
        for (; sel < 6; ++sel)
        {
            if (x < tw[sel])
                break;
            x -= tw[sel];
        }
        int64_t unit = (tr.policy == Policy::lfuda ? p.cfg.tick_ms : std::max<int64_t>(1, cur_ttl ? cur_ttl : ttl_palette[0])) * MS;
        // future boundary instants
        std::vector<int64_t> fut;
        for (auto c : cands)
            if (c >= now)
                fut.push_back(c);
        switch (sel)
        {
            case 0:
                return 0;
            case 1:
            {
                unsigned y = (unsigned)r.below(4);
                if (y == 0)
                    return r.range(1, 999999);
                if (y == 1)
                    return r.range(1, std::max<int64_t>(2, unit / 2));
                return r.range(1, std::min<int64_t>(2 * unit, 10LL * 1000 * MS));
            }
            case 2:
                if (!fut.empty())
                    return r.pick(fut) - now;
                return 0;
            case 3:
                if (!fut.empty())
                {
                    int64_t b = r.pick(fut);
                    return b - 1 >= now ? b - 1 - now : 0;
                }
                return 0;
            case 4:
                if (!fut.empty())
                    return r.pick(fut) + 1 - now;
                return 1;
            default:
            {
                static const int64_t jumps[] = {3600LL * 1000 * MS, 86400LL * 1000 * MS, 365LL * 86400 * 1000 * MS};
                return jumps[r.below(3)];
            }
        }
    }

    SeqPlan make()
    {
        Config& c = p.cfg;
        c.cont    = r.pick(prof.conts);
        tr        = traits_of(c.cont);
        c.ts      = r.chance(1, 2);
        {
            unsigned x = (unsigned)r.below(5);
            if (x < 2)
            {
                c.kt = KeyT::i;
                c.vt = ValT::i;
            }
            else if (x < 3)
            {
                c.kt = KeyT::s;
                c.vt = ValT::s;
            }
            else
            {
                c.kt = KeyT::c;
                c.vt = ValT::t;
            }
            if (!combo_supported(c.kt, c.vt))
            {
                c.kt = KeyT::i;
                c.vt = ValT::i;
            }
        }
        {
            static const unsigned caps[] = {1, 2, 2, 3, 3, 3, 4, 4, 5, 6, 8, 12};
            do
                c.capacity = caps[r.below(sizeof caps / sizeof caps[0])];
            while ((int)c.capacity > prof.max_capacity);
        }
        c.universe = tr.has_capacity ? c.capacity + (uint32_t)r.range(1, 4) : (uint32_t)r.range(2, 8);
        if (!tr.has_capacity && r.chance(1, 8))
        {
            // unbounded containers: now and then many keys, so that thresholds inside the
            // implementation (batch sizes, caps on work per call) are crossed
            c.universe = (uint32_t)r.range(70, 200);
            big_ranges = true;
        }
        if (tr.ttl != TtlMode::none && r.chance(1, 96))
        {
            // TTL containers: now and then hundreds or thousands of entries that expire together, written by a
            // few long ranges, so that a bound on the work done per call (a purge that stops after N entries)
            // is crossed.  Short plans, plain key type: the cost is in the number of entries.
            // (a bounded cache pays a complete probe for every evicting insert: keep those smaller)
            static const uint32_t us[]  = {300, 520, 1100, 1500, 2200};
            static const uint32_t usc[] = {260, 300, 300, 400, 520};
            // thorough tier: past the next powers of two as well (4096, 8192 for the unbounded containers, 1024 for caches)
            static const uint32_t ust[]  = {300, 1100, 2200, 4300, 8400};
            static const uint32_t usct[] = {260, 300, 400, 520, 1100};
            const uint32_t*       tab    = tr.has_capacity ? (prof.thorough ? usct : usc) : (prof.thorough ? ust : us);
            uint32_t              u      = tab[r.below(5)] + (uint32_t)r.below(50);
            if (tr.has_capacity)
            {
                c.capacity = u;
                c.universe = u + (uint32_t)r.range(1, 4);
            }
            else
                c.universe = u;
            c.kt       = KeyT::i;
            c.vt       = ValT::i;
            big_ranges = true;
            huge       = true;
        }
        hot        = tr.has_capacity ? (int)c.capacity + 1 : (int)c.universe;
        {
            static const double mlfs[] = {0.01, 0.25, 0.5, 1.0, 1.0, 1.0, 2.0, 8.0, 64.0};
            c.mlf                      = mlfs[r.below(9)];
        }
        static const int64_t ttls[] = {0, 1, 2, 5, 10, 50, 1000, 3600000};
        size_t               np      = (size_t)r.range(1, 4);
        for (size_t i = 0; i < np; ++i)
            ttl_palette.push_back(ttls[r.below(8)]);
        if (prof.prop == "C16" || prof.prop == "C17")
        {
            // a mix of short and long lifetimes so that some entries die while others live on
            ttl_palette.push_back(ttls[r.range(1, 4)]);
            ttl_palette.push_back(ttls[r.range(4, 7)]);
        }
        c.ttl_ms = pick_ttl();
        if (c.ttl_ms == 0 && r.chance(3, 4))
            c.ttl_ms = ttls[r.range(1, 7)];
        cur_ttl = c.ttl_ms;
        {
            static const int64_t ticks[] = {1, 5, 20, 1000, 60000};
            c.tick_ms                    = ticks[r.below(5)];
            // dyadic, so that the model's product is exact; the finer ones need counts of 8 and more to differ
            // from a coarser approximation of the ratio
            static const double ratios[] = {0.0, 0.25, 0.5, 0.5, 0.75, 1.0, 0.125, 0.375, 0.625, 0.875, 0.0625, 0.9375};
            c.ratio                      = ratios[r.below(12)];
        }
        {
            unsigned x = (unsigned)r.below(4);
            p.clock_start = x == 0 ? 0 : x == 1 ? (int64_t)r.below(1000) : x == 2 ? (int64_t)r.below(1000000000000ULL) : (int64_t)r.below(1000000000000000ULL);
        }
        now = p.clock_start;
        p.rd.clear();
        for (int i = 0; i < 4; ++i)
        {
            unsigned x = (unsigned)r.below(10);
            p.rd.push_back(x == 0 ? 0u : x == 1 ? 0xffffffffu : (uint32_t)r.next());
        }

        // ---- swarm: operation mix
        static const unsigned ws[] = {0, 1, 1, 2, 4, 8};
        auto                  rw   = [&]() { return ws[r.below(6)]; };
        w[(int)OpKind::insert]     = 4 + rw();
        w[(int)OpKind::erase]      = rw();
        w[(int)OpKind::find]       = rw();
        w[(int)OpKind::insert_range] = r.chance(1, 2) ? rw() : 0;
        w[(int)OpKind::erase_range]  = r.chance(1, 2) ? rw() / 2 : 0;
        w[(int)OpKind::find_range]   = r.chance(1, 2) ? rw() : 0;
        w[(int)OpKind::find_fill]    = r.chance(1, 2) ? rw() : 0;
        if (tr.has_uc)
            w[(int)OpKind::find_uc] = rw();
        if (tr.has_age)
            w[(int)OpKind::age] = 1 + rw();
        if (tr.has_clean)
            w[(int)OpKind::clean] = rw() / 2 + (r.chance(1, 2) ? 1 : 0);
        if (tr.has_clear)
            w[(int)OpKind::clear] = r.chance(1, 2) ? 1 : 0;
        if (tr.has_update_ttl)
            w[(int)OpKind::update_ttl] = r.chance(2, 3) ? 1 + rw() / 2 : 0;
        static const unsigned tws[] = {0, 1, 2, 4};
        for (auto& x : tw)
            x = tws[r.below(4)];
        tw[5] = r.chance(1, 4) ? 1 : 0; // jumps kill everything: keep them rare
        if (tw[0] + tw[1] + tw[2] + tw[3] + tw[4] == 0)
            tw[1] = tw[2] = 1;
        splice_num  = (unsigned)r.below(5);
        nonlive_num = (unsigned)r.below(4); // of 4 -> density 0, 1/8, 1/2, 1
        drift_num   = r.chance(1, 2) ? (unsigned)r.range(1, 4) : 0;
        static const unsigned dens[] = {0, 1, 4, 8};
        unsigned              nl     = dens[nonlive_num];

        // ---- per property emphasis
        const std::string& pr = prof.prop;
        if (pr == "C18")
        {
            w[(int)OpKind::insert_range] += 6;
            w[(int)OpKind::find_range] += 3;
            w[(int)OpKind::find_fill] += 3;
            w[(int)OpKind::erase_range] += 2;
        }
        if (pr == "C19")
        {
            splice_num = 2 + (unsigned)r.below(3);
            w[(int)OpKind::find] += 4;
            w[(int)OpKind::erase] += 2;
        }
        if (pr == "C20")
            w[(int)OpKind::clear] = 2;
        if (pr == "C16" || pr == "C17")
        {
            nl = r.chance(3, 4) ? 0 : 1;
            w[(int)OpKind::insert] += 6;
            w[(int)OpKind::find]  = std::min(w[(int)OpKind::find], 2u);
            if (tr.has_update_ttl)
                w[(int)OpKind::update_ttl] = 2 + rw() / 2;
            if (pr == "C17")
                w[(int)OpKind::clean] += 3;
            tw[5] = 0;
            tw[1] += 2;
        }
        if (pr == "C04" || pr == "C05")
        {
            tw[2] += 3;
            tw[3] += 3;
            tw[4] += 2;
            w[(int)OpKind::find] += 4;
            tw[5] = 0;
        }
        if (pr == "C14")
        {
            w[(int)OpKind::age] += 4;
            w[(int)OpKind::find] += 4;
            w[(int)OpKind::find_uc] += 2;
            tw[1] += 2;
            tw[2] += 2;
            tw[4] += 3;
        }
        if (pr == "C10" || pr == "C13" || pr == "C11")
        {
            w[(int)OpKind::find] += 4;
            tw[5] = 0;
        }
        if (pr == "C09")
            w[(int)OpKind::insert] += 6;

        if (big_ranges)
            nl = std::min(nl, 1u); // looking up every absent key of a large universe after every step is wasteful
        unsigned wtot = 0;
        for (auto x : w)
            wtot += x;

        int nsteps = r.chance(1, 3) ? (int)r.range(1, 12) : (int)r.range(8, prof.max_steps);
        if (huge)
        {
            nsteps = (int)r.range(2, 9);
            nl     = 0;
            w[(int)OpKind::insert_range] += 8;
            wtot += 8;
        }
        for (int i = 0; i < nsteps; ++i)
        {
            Step s;
            s.adv_ns = gen_adv();
            now += s.adv_ns;
            unsigned x = (unsigned)r.below(wtot);
            int      k = 0;
            for (; k < (int)OpKind::COUNT; ++k)
            {
                if (x < w[k])
                    break;
                x -= w[k];
            }
            bool splice = false;
            s.op        = gen_op((OpKind)k, splice);
            s.splice    = splice;
            s.probe_nonlive = nl && r.chance(nl, 8);
            if (s.op.is_range() && drift_num && (tr.ttl != TtlMode::none || tr.has_age) && r.chance(drift_num, 4))
            {
                // the clock moves between reads inside this range call
                static const int64_t ds[] = {1, 1000, MS, 5 * MS};
                s.drift_ns                = r.chance(1, 4) ? std::max<int64_t>(1, unit_ns() / (int64_t)r.range(1, 3)) : ds[r.below(4)];
            }
            p.steps.push_back(std::move(s));
        }
        return p;
    }
};
} // namespace

SeqPlan gen_seq_plan(uint64_t run_seed, const GenProfile& prof)
{
    Gen     g(run_seed, prof);
    SeqPlan p = g.make();
    // Client-thread lifetime (thread-per-call): decided from the run seed without drawing from the plan's
    // stream, so every other choice of the plan is what it was.  rr keeps per-instance random state, which
    // is what a per-thread replacement would break: half of C15's plans; one plan in 32 elsewhere.
    uint64_t h = mix3(run_seed, 0x7468726561647321ULL, 11);
    if (p.cfg.cont == Cont::rr && prof.prop == "C15" ? (h & 1) == 0 : (h & 31) == 0)
        p.cfg.fresh_thread = true;
    return p;
}

// ---------------------------------------------------------------------------
// Shrinking: greedy delta debugging over the step list followed by local
// simplifications; every candidate is a complete, executable plan.
size_t shrink_seq(SeqPlan& plan, const std::function<bool(const SeqPlan&)>& pred, size_t budget)
{
    size_t used = 0;
    auto   test = [&](const SeqPlan& c) {
        if (used >= budget)
            return false;
        ++used;
        return pred(c);
    };
    bool progress = true;
    while (progress && used < budget)
    {
        progress = false;
        // 1. drop chunks of steps (two variants: keep absolute times of later steps, or not)
        for (size_t chunk = std::max<size_t>(1, plan.steps.size() / 2); chunk >= 1; chunk /= 2)
        {
            for (size_t i = 0; i + chunk <= plan.steps.size();)
            {
                SeqPlan c = plan;
                int64_t adv = 0;
                for (size_t j = i; j < i + chunk; ++j)
                    adv += c.steps[j].adv_ns;
                c.steps.erase(c.steps.begin() + (long)i, c.steps.begin() + (long)(i + chunk));
                SeqPlan c2 = c;
                if (i < c2.steps.size())
                    c2.steps[i].adv_ns += adv;
                if (adv != 0 && i < c2.steps.size() && test(c2))
                {
                    plan     = c2;
                    progress = true;
                    continue;
                }
                if (test(c))
                {
                    plan     = c;
                    progress = true;
                    continue;
                }
                ++i;
            }
            if (chunk == 1)
                break;
        }
        // 2. simplify each step
        for (size_t i = 0; i < plan.steps.size() && used < budget; ++i)
        {
            auto try_mut = [&](const std::function<void(Step&)>& f) {
                SeqPlan c = plan;
                f(c.steps[i]);
                if (c.to_json().dump() == plan.to_json().dump())
                    return false;
                if (test(c))
                {
                    plan     = c;
                    progress = true;
                    return true;
                }
                return false;
            };
            try_mut([](Step& s) { s.adv_ns = 0; });
            try_mut([](Step& s) { s.splice = false; });
            try_mut([](Step& s) { s.probe_nonlive = false; });
            try_mut([](Step& s) { s.drift_ns = 0; });
            try_mut([](Step& s) { s.drift_ns = 1; });
            try_mut([](Step& s) { s.op.form = 0; });
            try_mut([](Step& s) { s.op.peek = false; });
            try_mut([](Step& s) { s.op.allow = ALLOW_BOTH; });
            // shorten ranges: long ones by chunks first
            if (plan.steps[i].op.is_range() && plan.steps[i].op.items.size() > 16)
                for (size_t chunk = plan.steps[i].op.items.size() / 2; chunk >= 8; chunk /= 2)
                    for (size_t j = 0; j + chunk <= plan.steps[i].op.items.size();)
                    {
                        if (!try_mut([j, chunk](Step& s) {
                                s.op.items.erase(s.op.items.begin() + (long)j, s.op.items.begin() + (long)(j + chunk));
                            }))
                            j += chunk;
                    }
            while (plan.steps[i].op.is_range() && !plan.steps[i].op.items.empty() && plan.steps[i].op.items.size() <= 160)
            {
                bool any = false;
                for (size_t j = 0; j < plan.steps[i].op.items.size(); ++j)
                {
                    if (try_mut([j](Step& s) { s.op.items.erase(s.op.items.begin() + (long)j); }))
                    {
                        any = true;
                        break;
                    }
                }
                if (!any)
                    break;
            }
            // a one-element range is a single op
            if (plan.steps[i].op.is_range() && plan.steps[i].op.items.size() == 1)
                try_mut([](Step& s) {
                    Op o;
                    Item it = s.op.items[0];
                    o.key   = it.key;
                    o.val   = it.val;
                    o.ttl_ms = it.ttl_ms;
                    o.allow  = s.op.allow;
                    o.peek   = s.op.peek;
                    o.kind   = s.op.kind == OpKind::insert_range ? OpKind::insert : s.op.kind == OpKind::erase_range ? OpKind::erase : OpKind::find;
                    s.op     = o;
                });
            // round advances
            if (plan.steps[i].adv_ns > 0)
            {
                int64_t a = plan.steps[i].adv_ns;
                for (int64_t cand : {a / 2, (a / MS) * MS, (a / (1000 * MS)) * (1000 * MS)})
                    if (cand != a && cand >= 0)
                        if (try_mut([cand](Step& s) { s.adv_ns = cand; }))
                            break;
            }
        }
        // 3. configuration
        auto try_cfg = [&](const std::function<void(SeqPlan&)>& f) {
            SeqPlan c = plan;
            f(c);
            if (c.to_json().dump() == plan.to_json().dump())
                return;
            if (test(c))
            {
                plan     = c;
                progress = true;
            }
        };
        try_cfg([](SeqPlan& c) { c.clock_start = 0; });
        try_cfg([](SeqPlan& c) { c.cfg.mlf = 1.0; });
        try_cfg([](SeqPlan& c) {
            c.cfg.kt = KeyT::i;
            c.cfg.vt = ValT::i;
        });
        try_cfg([](SeqPlan& c) { c.cfg.ts = false; });
        try_cfg([](SeqPlan& c) {
            if (c.cfg.capacity > 64)
            {
                c.cfg.universe -= std::min(c.cfg.universe - 1, c.cfg.capacity / 2);
                c.cfg.capacity -= c.cfg.capacity / 2;
            }
        });
        try_cfg([](SeqPlan& c) {
            if (c.cfg.capacity > 1)
            {
                --c.cfg.capacity;
            }
        });
        try_cfg([](SeqPlan& c) {
            if (c.cfg.universe > 1)
                --c.cfg.universe;
        });
        try_cfg([](SeqPlan& c) { c.rd = {1u}; });
        // 4. rename keys to small numbers (dense renumbering in order of first use)
        try_cfg([](SeqPlan& c) {
            std::map<int, int> ren;
            auto               m = [&](int k) {
                auto it = ren.find(k);
                if (it == ren.end())
                    it = ren.emplace(k, (int)ren.size()).first;
                return it->second;
            };
            for (auto& s : c.steps)
            {
                if (s.op.is_range())
                    for (auto& it : s.op.items)
                        it.key = m(it.key);
                else
                    s.op.key = m(s.op.key);
            }
        });
        // 5. renumber values densely
        try_cfg([](SeqPlan& c) {
            uint32_t v = 1;
            for (auto& s : c.steps)
            {
                if (s.op.kind == OpKind::insert)
                    s.op.val = v++;
                else if (s.op.kind == OpKind::insert_range)
                    for (auto& it : s.op.items)
                        it.val = v++;
            }
        });
    }
    return used;
}

} // namespace sim
