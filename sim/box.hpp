// Box: the uniform, container-agnostic face of one real libcappuccino container
// instance.  Everything behind it is the real header code.
#pragma once
#include "common.hpp"

#include <memory>

namespace sim
{
struct Found
{
    bool     hit{false};
    uint32_t val{0};
    uint64_t count{0};
};

struct Box
{
    virtual ~Box()                                                                              = default;
    virtual bool     insert(int key, uint32_t val, int allow, int64_t ttl_ms)                   = 0;
    virtual size_t   insert_range(const std::vector<Item>& items, int allow, int form)          = 0;
    virtual bool     erase(int key)                                                             = 0;
    virtual size_t   erase_range(const std::vector<Item>& keys, int form)                       = 0;
    virtual Found    find(int key, bool peek)                                                   = 0;
    virtual void     find_range(const std::vector<Item>& keys, bool peek, int form, Result& out) = 0;
    virtual void     find_fill(const std::vector<Item>& keys, bool peek, int form, Result& out)  = 0;
    virtual Found    find_uc(int key, bool peek)                                                = 0;
    virtual size_t   age()                                                                      = 0;
    virtual size_t   clean()                                                                    = 0;
    virtual void     clear()                                                                    = 0;
    virtual void     update_ttl(int64_t ms)                                                     = 0;
    virtual size_t   size()                                                                     = 0;
    virtual bool     empty()                                                                    = 0;
    virtual size_t   capacity()                                                                 = 0;
    virtual const void* obj_addr() const                                                        = 0;
    virtual size_t      obj_size() const                                                        = 0;

    // Executes one abstract op and encodes its result.
    Result exec(const Op& op);
};

// Normalises a range payload the way the chosen range form iterates it
// (sorted + unique for map / set forms).
std::vector<Item> effective_items(const Op& op);

// Factory functions, one per container translation unit.
std::unique_ptr<Box> make_lru(const Config&);
std::unique_ptr<Box> make_mru(const Config&);
std::unique_ptr<Box> make_fifo(const Config&);
std::unique_ptr<Box> make_lfu(const Config&);
std::unique_ptr<Box> make_lfuda(const Config&);
std::unique_ptr<Box> make_rr(const Config&);
std::unique_ptr<Box> make_tlru(const Config&);
std::unique_ptr<Box> make_utlru(const Config&);
std::unique_ptr<Box> make_ut_map(const Config&);
std::unique_ptr<Box> make_ut_set(const Config&);

std::unique_ptr<Box> make_box(const Config&);

// Which (key type, value type) pairs are instantiated.
bool combo_supported(KeyT k, ValT v);

// Tracked-value registry (value lifetime part of C08).
struct TrackedStats
{
    int64_t  live;          // currently registered instances
    uint64_t constructed;   // total
    uint64_t bad_destroy;   // destructor on an unregistered address
    uint64_t bad_construct; // constructor on an already registered address
};
TrackedStats tracked_stats();
void         tracked_reset_errors();

} // namespace sim
