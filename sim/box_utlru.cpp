#include "box_impl.hpp"
#include "cappuccino/utlru_cache.hpp"
namespace sim
{
#define T_OF(K, V, TS) cappuccino::utlru_cache<K, V, TS>
SIM_BOX_FACTORY(make_utlru, Cont::utlru, T_OF)
} // namespace sim
