// World "seq": executes a plan step by step against up to four instances of
// the real container code and a property-level reference model.
//
//   S  primary: every range expanded into single-key calls, probed after every
//      call, checked against the model                       (C01-C05, C08-C17)
//   R  same plan with the range calls as written, same probes; every shared
//      result must equal S's                                              (C18)
//   B  bare twin: R's calls minus the calls the model predicts to have no
//      effect, never probed; shared results must equal R's               (C19)
//   D  created fresh at each clear(); same continuation as S             (C20)
#include "seq.hpp"

#include "box.hpp"
#include "sched.hpp"

#include <algorithm>
#include <climits>
#include <cmath>

namespace sim
{
js::Value SeqPlan::to_json() const
{
    auto v = js::Value::object();
    v.set("world", "seq");
    v.set("config", cfg.to_json());
    v.set("clock_start", clock_start);
    auto r = js::Value::array();
    for (auto x : rd)
        r.push(js::Value::integer((int64_t)x));
    v.set("rd", std::move(r));
    auto s = js::Value::array();
    for (auto& st : steps)
    {
        auto o = st.op.to_json();
        o.set("adv_ns", st.adv_ns);
        if (st.splice)
            o.set("splice", true);
        if (st.probe_nonlive)
            o.set("probe_nonlive", true);
        if (st.drift_ns)
            o.set("drift_ns", st.drift_ns);
        s.push(std::move(o));
    }
    v.set("steps", std::move(s));
    return v;
}

bool SeqPlan::from_json(const js::Value& v)
{
    auto* c = v.get("config");
    if (!c || !cfg.from_json(*c))
        return false;
    clock_start = v.geti("clock_start");
    if (clock_start < 0)
        clock_start = 0;
    rd.clear();
    if (auto* r = v.get("rd"))
        for (auto& x : r->a)
            rd.push_back((uint32_t)x.i);
    if (rd.empty())
        rd.push_back(1);
    steps.clear();
    if (auto* s = v.get("steps"))
        for (auto& o : s->a)
        {
            Step st;
            if (!st.op.from_json(o))
                return false;
            st.adv_ns = o.geti("adv_ns");
            if (st.adv_ns < 0)
                st.adv_ns = 0;
            st.splice        = o.getb("splice");
            st.probe_nonlive = o.getb("probe_nonlive");
            st.drift_ns      = std::max<int64_t>(0, o.geti("drift_ns"));
            steps.push_back(std::move(st));
        }
    return true;
}

void SeqPlan::normalize()
{
    Traits tr = traits_of(cfg.cont);
    if (!combo_supported(cfg.kt, cfg.vt))
    {
        cfg.kt = KeyT::i;
        cfg.vt = ValT::i;
    }
    if (tr.has_capacity && cfg.universe < 1)
        cfg.universe = 1;
    int               u = (int)cfg.universe;
    std::vector<Step> out;
    for (auto& s : steps)
    {
        Op& o = s.op;
        bool ok = true;
        switch (o.kind)
        {
            case OpKind::find_uc:
                ok = tr.has_uc;
                break;
            case OpKind::age:
                ok = tr.has_age;
                break;
            case OpKind::clean:
                ok = tr.has_clean;
                break;
            case OpKind::clear:
                ok = tr.has_clear;
                break;
            case OpKind::update_ttl:
                ok = tr.has_update_ttl;
                break;
            case OpKind::capacity:
                ok = tr.has_capacity;
                break;
            default:
                break;
        }
        if (!ok)
            continue;
        o.key = ((o.key % u) + u) % u;
        if (o.val == 0)
            o.val = 1;
        for (auto& it : o.items)
        {
            it.key = ((it.key % u) + u) % u;
            if (it.val == 0)
                it.val = 1;
        }
        if (!tr.has_peek)
            o.peek = false;
        if (!tr.iter_forms && (o.form == 3 || o.form == 4))
            o.form = 0;
        if (cfg.cont == Cont::tlru && o.kind == OpKind::insert_range && o.form == 2)
            o.form = 0;
        if (o.form < 0 || o.form > 6 || (o.form >= 5 && o.kind != OpKind::find_fill))
            o.form = 0;
        if (o.kind == OpKind::find_range && o.form == 2)
            o.form = 0;
        if ((o.kind == OpKind::find_fill || o.kind == OpKind::insert_range) && o.form == 4)
            o.form = 0;
        if (o.kind == OpKind::find_fill && o.form == 1)
            o.form = 0;
        if (o.kind == OpKind::erase_range && (o.form == 2 || o.form == 4))
            o.form = 0;
        out.push_back(std::move(s));
    }
    steps = std::move(out);
}

void (*g_seq_call_hook)(const char* tag) = nullptr;

namespace
{
constexpr int64_t INF = INT64_MAX;
constexpr int64_t MS  = 1000000;

enum class Gone
{
    never,
    erased,
    evicted,
    expired,
    cleared
};

struct MEntry
{
    uint32_t val{0};
    int64_t  deadline{INF};
    uint64_t use{0}, ins{0};
    uint64_t count{0};
    int64_t  touch{0};
    bool     last_write_update{false};
};

struct WriteInfo
{
    int  key;
    bool accepted;
};

struct SeqRun
{
    const SeqPlan& plan;
    Config         cfg;
    Traits         tr;
    std::string*   trace;

    std::unique_ptr<Box> S, R, B, D;
    bool                 b_compare{true};
    bool                 b_ambiguous{false};

    // ---- model
    int64_t                       now{0};
    int64_t                       cur_ttl_ms{0};
    std::map<int, MEntry>         live;
    std::set<int>                 zomb;
    std::map<int, Gone>           gone;
    std::map<uint32_t, WriteInfo> writes;
    std::map<int, int64_t>        rejected_deadline;
    std::set<int>                 recycled; // keys inserted after some erase/eviction happened (slot reuse)
    bool                          any_removed{false};
    bool                          any_erased{false}; // an erase call succeeded in this run
    std::map<int, int>            rr_label;          // rr, histories without erases: lineage label of each resident
    uint64_t                      stamp{0};
    int64_t                       z_prev{0};
    int64_t                       newly_expired{0};
    bool                          aged_this_step{false};
    bool                          expired_first_this_step{false}; // a full insert of this step met an expired and a live resident (C16's rule applied)
    bool                          twins_in_sync{true};
    int64_t                       doa_step{0}; // writes of the current step that were dead on arrival
    uint64_t                      s_calls_step{0}; // insert/erase/lookup/clean calls made on S in the current step

    Violation   viol;  // the violation this run reports (focus property, or the first one without focus)
    Violation   other; // first tolerated violation of another property
    bool        stop{false};
    bool        stop_after_step{false};
    std::string focus;
    RunStats    st;
    int         step_no{-1};

    SeqRun(const SeqPlan& p, std::string* t, const std::string& f) : plan(p), cfg(p.cfg), tr(traits_of(p.cfg.cont)), trace(t), focus(f) {}

    // ---------------------------------------------------------------- util ----
    // Records a failed check.  With a focus property set, a check that does not concern it is
    // only counted: if the caller can adopt the observed state (`adoptable`) the run goes on so that
    // later checks of the focus property are still reached, otherwise the run is abandoned.
    // Returns true when the run must stop.
    bool fail(std::initializer_list<const char*> props, const char* check, const std::string& detail, bool adoptable = false)
    {
        return fail(std::vector<const char*>(props), check, detail, adoptable);
    }
    // Properties broken when live entries vanish without an erase or a legal eviction: the given
    // ones, plus C05 in TTL containers (the entry is no longer returned before its deadline) and
    // C02 where size() now undercounts the keys that are live by the rules.
    std::vector<const char*> loss_props(std::initializer_list<const char*> base)
    {
        std::vector<const char*> v(base);
        if (is_ttl())
        {
            v.push_back("C05");
            ++st.calls;
            if ((int64_t)S->size() < (int64_t)live.size())
                v.push_back("C02");
        }
        return v;
    }
    bool fail(const std::vector<const char*>& props, const char* check, const std::string& detail, bool adoptable = false)
    {
        if (stop)
            return true;
        bool mine = focus.empty();
        for (auto p : props)
            if (focus == p)
                mine = true;
        if (mine)
        {
            for (auto p : props)
                viol.props.insert(p);
            viol.check  = check;
            viol.detail = detail;
            viol.step   = step_no;
            stop        = true;
            return true;
        }
        if (!other.any())
        {
            for (auto p : props)
                other.props.insert(p);
            other.check  = check;
            other.detail = detail;
            other.step   = step_no;
        }
        st.bump(std::string("tolerated.") + check);
        if (!adoptable)
            stop_after_step = true; // the model cannot follow: finish this step's remaining checks, then end the run
        return stop;
    }
    bool failed() const { return stop; }
    void eval(const char* prop) { st.counters[std::string("eval.") + prop]++; }
    void nt(const char* prop) { st.nontrivial.insert(prop); }
    void note(const Result& r)
    {
        st.log_hash = fnv1a(r.data(), r.size() * sizeof(int64_t), st.log_hash);
        st.log_hash = fnv1a("|", 1, st.log_hash);
    }
    void tr_line(const std::string& s)
    {
        if (trace)
        {
            *trace += s;
            *trace += "\n";
        }
    }
    std::string kstr(const std::set<int>& s)
    {
        std::string o = "{";
        for (int k : s)
            o += std::to_string(k) + " ";
        return o + "}";
    }
    bool is_ttl() const { return tr.ttl != TtlMode::none; }
    // The bare twin executes ranges as written, like R; once R is gone (diverged, legitimately or
    // not) the only reference left is S, which is not comparable with B across range calls.
    void drop_R()
    {
        R.reset();
        b_compare = false;
    }
    // the property that states this container's eviction order (nullptr: none / random)
    const char* policy_prop() const
    {
        switch (tr.policy)
        {
            case Policy::lru:
                return "C10";
            case Policy::mru:
                return "C13";
            case Policy::fifo:
                return "C12";
            case Policy::lfu:
                return "C11";
            case Policy::lfuda:
                return "C14";
            default:
                return nullptr;
        }
    }

    std::unique_ptr<Box> fresh(const Config& c)
    {
        sched::rd_rewind();
        return make_box(c);
    }

    // --------------------------------------------------------------- model ----
    void expire()
    {
        if (!is_ttl())
            return;
        for (auto it = live.begin(); it != live.end();)
        {
            if (it->second.deadline <= now)
            {
                zomb.insert(it->first);
                gone[it->first] = Gone::expired;
                ++newly_expired;
                it = live.erase(it);
                st.bump("model.expired");
            }
            else
                ++it;
        }
    }

    int64_t eff_deadline(int64_t ttl_ms_call) const
    {
        if (tr.ttl == TtlMode::none)
            return INF;
        int64_t ttl = (tr.ttl == TtlMode::per_entry) ? ttl_ms_call : cur_ttl_ms;
        return now + ttl * MS;
    }

    // aging of all residents that have been idle strictly longer than tick
    size_t model_age()
    {
        size_t n = 0;
        for (auto& kv : live)
        {
            MEntry& e = kv.second;
            if (e.touch + cfg.tick_ms * MS < now)
            {
                // exact for dyadic ratios and counts < 2^24
                e.count = (uint64_t)std::floor((double)e.count * cfg.ratio);
                e.touch = now;
                ++n;
            }
        }
        if (n)
        {
            aged_this_step = true;
            nt("C14");
            st.bump("fault.aging_eligible", n);
        }
        return n;
    }

    // ------------------------------------------------------------ observers ----
    struct Obs
    {
        int64_t size;
        bool    empty;
        int64_t cap;
    };
    Obs read_obs(Box& b)
    {
        Obs o;
        o.size  = (int64_t)b.size();
        o.empty = b.empty();
        o.cap   = tr.has_capacity ? (int64_t)b.capacity() : -1;
        st.calls += 3;
        note({o.size, o.empty, o.cap});
        return o;
    }

    // exact_live: the call just made must have purged every expired entry
    void check_obs(const Obs& o, const char* phase, bool exact_live)
    {
        eval("C02");
        std::string where = std::string(" (") + phase + ", size=" + std::to_string(o.size) +
                            " live=" + std::to_string(live.size()) + " cap=" + std::to_string(o.cap) + ")";
        if (tr.has_capacity)
        {
            if (o.cap != (int64_t)cfg.capacity && fail({"C02"}, "observer.capacity", "capacity() != constructor argument" + where, true))
                return;
            if (o.size > o.cap && fail({"C02"}, "observer.size_gt_capacity", "size() > capacity()" + where, true))
                return;
        }
        if (o.size < 0 && fail({"C02"}, "observer.size_negative", "size() wrapped" + where, true))
            return;
        if (o.empty != (o.size == 0) && fail({"C02"}, "observer.empty", "empty() disagrees with size()" + where, true))
            return;
        if (!is_ttl())
        {
            if (o.size != (int64_t)live.size() &&
                fail({"C02"}, "observer.size_ne_live", "size() != number of keys a lookup finds" + where, true))
                return;
        }
        else
        {
            if (o.size < (int64_t)live.size())
            {
                if (fail({"C02"}, "observer.size_lt_live", "size() < number of live keys" + where, true))
                    return;
                z_prev = newly_expired = 0;
            }
            else
            {
                int64_t z = o.size - (int64_t)live.size();
                if ((z > (int64_t)zomb.size() || z > z_prev + newly_expired) &&
                    fail({"C02"}, "observer.size_gt_live_plus_expired",
                         "size() exceeds live + expired-unremoved" + where + " z=" + std::to_string(z) +
                             " z_prev=" + std::to_string(z_prev) + " newly=" + std::to_string(newly_expired), true))
                    return;
                // Entries written by this very step with a lifetime of zero are dead on arrival; the
                // purge ran at the start of the call, so they may still be counted until the next call.
                if (exact_live && z > doa_step)
                {
                    eval("C17");
                    // ut_map / ut_set promise an exact size() after every call (C02 and C17);
                    // tlru / utlru promise it only after clean_expired_values() (C17)
                    bool stop_now = tr.purge_every_call
                                        ? fail({"C02", "C17"}, "observer.purge_incomplete",
                                               "expired entries still counted right after a purging call" + where, true)
                                        : fail({"C17"}, "observer.purge_incomplete",
                                               "expired entries still counted right after clean_expired_values()" + where, true);
                    if (stop_now)
                        return;
                }
                z_prev        = z;
                newly_expired = 0;
                if (z == 0)
                    zomb.clear();
            }
        }
        if (any_removed)
            nt("C02");
    }

    // --------------------------------------------------------------- probes ----
    // Looks a key up without policy side effects on the given box.
    Found quiet_find(Box& b, int k)
    {
        ++st.calls;
        if (&b == S.get())
            ++s_calls_step;
        Found f;
        if (tr.has_uc)
            f = b.find_uc(k, true);
        else
            f = b.find(k, tr.has_peek);
        note({f.hit, f.val, (int64_t)f.count});
        return f;
    }

    // adoptable: the caller takes the observed value into the model
    void attribute_wrong_value(int k, uint32_t got, const char* where)
    {
        auto        it   = writes.find(got);
        std::string base = std::string(where) + ": key " + std::to_string(k) + " returned value " + std::to_string(got) +
                           " expected " + std::to_string(live[k].val);
        if (it == writes.end())
            fail({"C01"}, "lookup.unknown_value", base + " (never written)", true);
        else if (it->second.key != k)
            // the key is served from another key's slot: its own entry has left the container although no erase,
            // eviction or expiry removed it, which is C03's claim as well
            fail({"C01", "C03"}, "lookup.other_keys_value", base + " (written under key " + std::to_string(it->second.key) + ")", true);
        else if (!it->second.accepted)
            fail({"C09"}, "allow.rejected_write_visible", base + " (value of a rejected insert)", true);
        else if (live[k].last_write_update)
            fail({"C01", "C09"}, "lookup.stale_value", base + " (overwritten value, update did not replace it)", true);
        else
            fail({"C01"}, "lookup.stale_value", base + " (older value of the same key)", true);
        live[k].val = got;
    }

    void hit_on_dead(int k, const char* where)
    {
        std::string base = std::string(where) + ": key " + std::to_string(k) + " found but ";
        auto        g    = gone.find(k);
        Gone        why  = g == gone.end() ? Gone::never : g->second;
        if (why == Gone::expired)
        {
            auto rj = rejected_deadline.find(k);
            if (rj != rejected_deadline.end() && rj->second > now)
            {
                fail({"C04", "C09", "C01"}, "ttl.expired_served_after_rejected_insert", base + "expired (a rejected insert extended its life)");
                return;
            }
            fail({"C04", "C01"}, "ttl.expired_served", base + "its TTL elapsed at or before now=" + std::to_string(now));
            return;
        }
        const char* w = why == Gone::never ? "never inserted" : why == Gone::erased ? "erased" : why == Gone::evicted ? "evicted" : "cleared";
        if (why == Gone::cleared)
            fail({"C01", "C20"}, "lookup.cleared_key_found", base + w);
        else
            fail({"C01"}, "lookup.absent_key_found", base + w);
    }

    // Probes every model-live key on S (and the same keys on R / D, comparing).
    // Returns the set of live keys that were not found.
    // `sampled`: with many residents, and when nothing may leave (no eviction due), only `focus_key` and a
    // spread of the others are looked up; the probe at the end of the step is always complete.
    std::set<int> probe_live(const char* phase, bool sampled = false, int focus_key = -1)
    {
        std::set<int> missing;
        size_t        stride = 1, off = 0, idx = 0;
        if (sampled && live.size() > 64)
        {
            stride = live.size() / 8;
            off    = (size_t)(st.calls % stride);
        }
        for (auto& kv : live)
        {
            int   k = kv.first;
            if (stride > 1 && k != focus_key && (idx++ % stride) != off)
                continue;
            Found f = quiet_find(*S, k);
            eval("C01");
            if (!f.hit)
                missing.insert(k);
            else
            {
                if (tr.has_values && f.val != kv.second.val)
                {
                    attribute_wrong_value(k, f.val, phase);
                    if (failed())
                        return missing;
                }
                if (tr.has_uc)
                {
                    eval("C11");
                    if (f.count != kv.second.count)
                    {
                        std::string d = std::string(phase) + ": key " + std::to_string(k) + " use count " +
                                        std::to_string(f.count) + " expected " + std::to_string(kv.second.count);
                        if (cfg.cont == Cont::lfuda && aged_this_step)
                            fail({"C14"}, "lfuda.count_after_aging", d, true);
                        else
                            fail({"C11"}, "lfu.use_count", d, true);
                        if (failed())
                            return missing;
                        kv.second.count = f.count;
                    }
                }
                if (recycled.count(k))
                    nt("C01");
            }
            twin_probe(k, f, phase);
            if (failed())
                return missing;
        }
        return missing;
    }

    void twin_probe(int k, const Found& f, const char* phase)
    {
        // D receives every call S receives, in the same order, so it can be compared at any moment;
        // R executes a range as one call and is behind S in the middle of a step
        if (R && twins_in_sync)
        {
            Found g = quiet_find(*R, k);
            eval("C18");
            if (g.hit != f.hit || g.val != f.val || g.count != f.count)
            {
                // The single-driven instance has been verified against the model step by step, so the
                // range-driven one is what deviates: a different use count breaks C11's counting rule for
                // range lookups, a different resident set breaks the container's eviction order rule.
                std::vector<const char*> pr = {"C18"};
                if (g.hit == f.hit && g.val == f.val)
                    pr.push_back("C11");
                else if (const char* pol = policy_prop())
                    pr.push_back(pol);
                // the singles of this step applied the expired-first rule (verified against the model): a range call
                // that ends with a different resident set chose its victims differently where that rule was in force
                if (expired_first_this_step && !(g.hit == f.hit && g.val == f.val))
                    pr.push_back("C16");
                if (fail(pr, "range.state_diverged",
                         std::string(phase) + ": probe of key " + std::to_string(k) +
                             " differs between range-driven and single-driven instance (hit " + std::to_string(g.hit) + "/" +
                             std::to_string(f.hit) + ", value " + std::to_string(g.val) + "/" + std::to_string(f.val) + ", count " +
                             std::to_string(g.count) + "/" + std::to_string(f.count) + ")", true))
                    return;
                drop_R(); // diverged: stop comparing this twin
            }
        }
        if (D)
        {
            Found g = quiet_find(*D, k);
            eval("C20");
            nt("C20");
            if (g.hit != f.hit || g.val != f.val || g.count != f.count)
            {
                if (fail({"C20"}, "clear.twin_probe",
                         std::string(phase) + ": probe of key " + std::to_string(k) +
                             " differs between cleared and freshly constructed instance", true))
                    return;
                D.reset();
            }
        }
    }

    void probe_nonlive(const char* phase)
    {
        for (int k = 0; k < (int)cfg.universe; ++k)
        {
            if (live.count(k))
                continue;
            bool  was_z = zomb.count(k) != 0;
            Found f     = quiet_find(*S, k);
            if (was_z)
            {
                eval("C04");
                nt("C04");
            }
            else
                eval("C01");
            if (f.hit)
            {
                hit_on_dead(k, phase);
                return;
            }
            twin_probe(k, f, phase);
            if (failed())
                return;
        }
    }

    // After probes the sizes may only have changed by reaping of expired entries.
    void post_probe_obs(const Obs& before)
    {
        Obs o = read_obs(*S);
        if (!is_ttl())
        {
            eval("C19");
            if (o.size != before.size && fail({"C19", "C02"}, "probe.size_changed", "a peek / missing lookup changed size()", true))
                return;
        }
        check_obs(o, "after-probe", false);
        if (failed())
            return;
        if (R)
        {
            Obs r = read_obs(*R);
            eval("C18");
            // In TTL containers a range call with no elements still discards expired entries while
            // "no single calls" does not: sizes may differ by expired entries only (every key is
            // compared by the probes), so only the bounds are checked there.
            if (is_ttl())
            {
                if (r.size < (int64_t)live.size() || (tr.has_capacity && r.size > (int64_t)cfg.capacity) || r.empty != (r.size == 0))
                {
                    if (fail({"C18"}, "range.size_bounds",
                             "size() of the range-driven instance (" + std::to_string(r.size) + ") outside [live, capacity]", true))
                        return;
                    drop_R();
                }
            }
            else if (r.size != o.size || r.empty != o.empty)
            {
                if (fail({"C18"}, "range.size_diverged",
                         "size() differs between range-driven (" + std::to_string(r.size) + ") and single-driven (" +
                             std::to_string(o.size) + ") instance", true))
                    return;
                drop_R();
            }
        }
        if (D)
        {
            Obs d = read_obs(*D);
            eval("C20");
            if (d.size != o.size || d.empty != o.empty)
            {
                if (fail({"C20"}, "clear.twin_size",
                         "size() differs between cleared (" + std::to_string(o.size) + ") and fresh (" +
                             std::to_string(d.size) + ") instance", true))
                    return;
                D.reset();
            }
        }
    }

    // ------------------------------------------------------- single ops on S ----
    void remove_live(int k, Gone why)
    {
        live.erase(k);
        gone[k]     = why;
        any_removed = true;
    }

    void victim_check(const std::set<int>& L0keys, const std::map<int, MEntry>& L0, int victim)
    {
        (void)L0keys;
        const MEntry& v = L0.at(victim);
        switch (tr.policy)
        {
            case Policy::lru:
            {
                const char* p = "C10";
                eval(p);
                nt(p);
                for (auto& kv : L0)
                    if (kv.second.use < v.use)
                    {
                        fail({p}, "lru.victim",
                             "evicted key " + std::to_string(victim) + " but key " + std::to_string(kv.first) + " was used less recently", true);
                        return;
                    }
                break;
            }
            case Policy::mru:
                eval("C13");
                nt("C13");
                for (auto& kv : L0)
                    if (kv.second.use > v.use)
                    {
                        fail({"C13"}, "mru.victim",
                             "evicted key " + std::to_string(victim) + " but key " + std::to_string(kv.first) + " was used more recently", true);
                        return;
                    }
                break;
            case Policy::fifo:
                eval("C12");
                nt("C12");
                for (auto& kv : L0)
                    if (kv.second.ins < v.ins)
                    {
                        fail({"C12"}, "fifo.victim",
                             "evicted key " + std::to_string(victim) + " but key " + std::to_string(kv.first) + " was inserted earlier", true);
                        return;
                    }
                break;
            case Policy::lfu:
            case Policy::lfuda:
            {
                bool        da = (tr.policy == Policy::lfuda && aged_this_step);
                const char* p  = da ? "C14" : "C11";
                eval(p);
                nt(p);
                for (auto& kv : L0)
                    if (kv.second.count < v.count)
                    {
                        fail({p}, da ? "lfuda.victim_after_aging" : "lfu.victim",
                             "evicted key " + std::to_string(victim) + " (count " + std::to_string(v.count) + ") but key " +
                                 std::to_string(kv.first) + " has count " + std::to_string(kv.second.count), true);
                        return;
                    }
                break;
            }
            case Policy::rr:
                eval("C15");
                nt("C15");
                {
                    // rank of the victim among residents by insertion order, for the spread statistic
                    int rank = 0;
                    for (auto& kv : L0)
                        if (kv.second.ins < v.ins)
                            ++rank;
                    st.bump("rr.rank." + std::to_string(L0.size()) + "." + std::to_string(rank));
                }
                break;
            default:
                break;
        }
    }

    // One single-key insert on S, fully checked.  Returns the observed result.
    bool do_insert(const Op& op)
    {
        const int   k      = op.key;
        const bool  isLive = live.count(k) != 0;
        const bool  isZ    = !isLive && zomb.count(k) != 0;
        const Obs   o0     = read_obs(*S);
        const int64_t z0   = is_ttl() ? o0.size - (int64_t)live.size() : 0;
        // the residents before the call: only needed to judge a victim, i.e. when the cache is full
        std::map<int, MEntry> L0;
        std::set<int>         L0k;
        if (tr.has_capacity && o0.size == (int64_t)cfg.capacity)
        {
            L0 = live;
            for (auto& kv : L0)
                L0k.insert(kv.first);
        }

        ++st.calls;
        ++s_calls_step;
        if (g_seq_call_hook)
            g_seq_call_hook(tr.policy == Policy::rr && !isLive && (op.allow & ALLOW_INSERT) && o0.size == (int64_t)cfg.capacity
                                ? "rr_evict"
                                : single_noeffect(OpKind::insert, k, op.allow, false) ? "noeffect" : "");
        bool res = S->insert(k, op.val, op.allow, op.ttl_ms);
        if (g_seq_call_hook)
            g_seq_call_hook("");
        note({res});
        mirror_D(op, {res});
        if (!writes.count(op.val))
            writes[op.val] = WriteInfo{k, false}; // (a plan may write the value a key already holds once more)
        const int64_t dl   = eff_deadline(op.ttl_ms);
        bool          created = false, updated = false;

        eval("C09");
        if (isLive)
        {
            if (op.allow & ALLOW_UPDATE)
            {
                if (!res)
                {
                    fail({"C09"}, "allow.update_on_live_rejected",
                         "insert(allow=" + std::to_string(op.allow) + ") on live key " + std::to_string(k) + " returned false");
                    return res;
                }
                updated = true;
            }
            else
            {
                nt("C09");
                if (res)
                {
                    fail({"C09"}, "allow.insert_only_on_live_accepted",
                         "insert(allow::insert) on live key " + std::to_string(k) + " returned true");
                    return res;
                }
                auto& rj = rejected_deadline[k];
                rj       = std::max(rj, dl);
                st.bump("probe.rejected_insert");
            }
        }
        else if (isZ)
        {
            st.bump("probe.write_on_expired_key");
            nt("C09");
            if (op.allow & ALLOW_INSERT)
            {
                if (!res)
                {
                    fail({"C09"}, "allow.insert_on_expired_rejected",
                         "insert(allow=" + std::to_string(op.allow) + ") on expired key " + std::to_string(k) + " returned false");
                    return res;
                }
                created = true;
            }
            else
            {
                // update-only on an expired, possibly still resident entry: either outcome
                if (res)
                {
                    if (z0 <= 0)
                    {
                        fail({"C09"}, "allow.update_created_entry",
                             "insert(allow::update) on key " + std::to_string(k) + " with no resident entry returned true");
                        return res;
                    }
                    created = true;
                    st.bump("open.update_revived_expired");
                }
                else
                    st.bump("open.update_on_expired_failed");
            }
        }
        else
        {
            if (op.allow & ALLOW_INSERT)
            {
                if (!res)
                {
                    fail({"C09"}, "allow.insert_on_absent_rejected",
                         "insert(allow=" + std::to_string(op.allow) + ") on absent key " + std::to_string(k) + " returned false");
                    return res;
                }
                created = true;
            }
            else
            {
                nt("C09");
                st.bump("probe.update_on_absent");
                if (res)
                {
                    fail({"C09"}, "allow.update_created_entry",
                         "insert(allow::update) on absent key " + std::to_string(k) + " returned true");
                    return res;
                }
            }
        }

        // physical situation before the call
        const bool full = tr.has_capacity && o0.size == (int64_t)cfg.capacity;

        if (updated)
        {
            MEntry& e = live[k];
            e.val     = op.val;
            e.deadline = dl;
            e.use      = ++stamp;
            e.count += 1;
            e.touch             = now;
            e.last_write_update = true;
            writes[op.val].accepted = true;
            rejected_deadline.erase(k);
            if (is_ttl())
                nt("C05");
        }

        bool aged_before_victim = false;
        if (created)
        {
            if (full && tr.policy == Policy::lfuda)
            {
                // aging point: just before a victim is chosen
                aged_before_victim = true;
            }
        }
        std::map<int, MEntry> Lpre = L0;
        if (aged_before_victim)
        {
            model_age();
            Lpre = live;
        }
        if (created)
        {
            MEntry e;
            e.val               = op.val;
            e.deadline          = dl;
            e.use               = ++stamp;
            e.ins               = stamp;
            e.count             = 1;
            e.touch             = now;
            e.last_write_update = false;
            if (tr.policy == Policy::rr && !any_erased && !full)
                rr_label[k] = (int)live.size();
            live[k]             = e;
            zomb.erase(k);
            gone.erase(k);
            writes[op.val].accepted = true;
            rejected_deadline.erase(k);
            if (any_removed)
                recycled.insert(k);
            else
                recycled.erase(k);
        }
        if ((created || updated) && dl <= now)
        {
            ++doa_step;
            st.bump("fault.ttl_zero_write");
        }
        expire(); // TTL 0: dead on arrival

        const Obs o1 = read_obs(*S);
        // Retention analysis needs the set of live keys that vanished.
        std::set<int> missing = probe_live("after insert", !(created && full) || (is_ttl() && z0 > 0), k);
        if (failed())
            return res;
        // the key just written must be there (it is part of `live` unless dead on arrival)
        if (missing.count(k))
        {
            if (tr.policy == Policy::rr && created && full)
                fail({"C15", "C01"}, "rr.evicted_inserted_key", "the key being inserted (" + std::to_string(k) + ") is missing right after the insert");
            else
                fail({"C01"}, "lookup.just_written_missing", "key " + std::to_string(k) + " missing right after a successful write");
            return res;
        }
        // Whatever the verdicts below, the model adopts what was observed: the missing keys are gone.
        auto adopt_missing = [&]() {
            for (int m : missing)
                if (live.count(m))
                    remove_live(m, Gone::evicted);
        };

        eval("C03");
        if (created && full)
        {
            nt("C03");
            st.bump("probe.full_insert");
            if (o1.size != (int64_t)cfg.capacity &&
                fail({"C03"}, "retention.full_insert_size",
                     "insert of a new key into a full cache left size()=" + std::to_string(o1.size) + " != capacity " +
                         std::to_string(cfg.capacity), true))
                return res;
            if (is_ttl() && z0 > 0)
            {
                if (!L0.empty())
                {
                    eval("C16");
                    nt("C16");
                    expired_first_this_step = true;
                    st.bump("probe.full_insert_with_expired_and_live");
                }
                if (!missing.empty())
                {
                    if (missing.size() > 1)
                        fail({"C16", "C03"}, "ttl.live_evicted_while_expired_resident",
                             "full insert with " + std::to_string(z0) + " expired resident(s) removed live keys " + kstr(missing), true);
                    else
                        fail({"C16"}, "ttl.live_evicted_while_expired_resident",
                             "full insert with " + std::to_string(z0) + " expired resident(s) removed live key " + kstr(missing), true);
                    adopt_missing();
                    if (failed())
                        return res;
                }
            }
            else
            {
                if (missing.size() != 1)
                {
                    if (tr.policy == Policy::rr)
                        fail({"C03", "C15"}, "retention.full_insert_victims",
                             "insert of a new key into a full cache removed " + std::to_string(missing.size()) +
                                 " live entries " + kstr(missing) + " (exactly one expected)", true);
                    else if (missing.size() > 1)
                        fail(loss_props({"C03"}), "retention.full_insert_victims",
                             "insert of a new key into a full cache removed " + std::to_string(missing.size()) +
                                 " live entries " + kstr(missing) + " (exactly one expected)", true);
                    else
                        fail({"C03"}, "retention.full_insert_victims",
                             "insert of a new key into a full cache removed " + std::to_string(missing.size()) +
                                 " live entries " + kstr(missing) + " (exactly one expected)", true);
                    adopt_missing();
                    if (failed())
                        return res;
                }
                else
                {
                    int victim = *missing.begin();
                    victim_check(L0k, Lpre, victim);
                    if (tr.policy == Policy::rr && !any_erased && rr_label.count(victim))
                    {
                        // Lineage labels: the i-th key of a history without erases gets label i, a key that takes
                        // an evicted key's place inherits its label.  Residents and labels stay in bijection, so a
                        // chooser that spreads over the residents evicts every label sooner or later and none
                        // always; a chooser with a blind spot (a slot it can never draw) leaves one label immune,
                        // which the rank by insertion order cannot show (the immune key simply grows old).
                        int lab = rr_label[victim];
                        st.bump("rr.purerank." + std::to_string(L0k.size()) + "." + std::to_string(lab));
                        // the same, restricted to runs whose calls are each made by a newly created thread
                        if (plan.cfg.fresh_thread)
                            st.bump("rr.freshrank." + std::to_string(L0k.size()) + "." + std::to_string(lab));
                        rr_label.erase(victim);
                        rr_label[k] = lab;
                    }
                    remove_live(victim, Gone::evicted);
                    if (failed())
                        return res;
                }
            }
        }
        else
        {
            if (!missing.empty())
            {
                fail(tr.policy == Policy::rr ? loss_props({"C03", "C15"}) : loss_props({"C03"}), "retention.lost_on_nonevicting_insert",
                     std::string(created ? "insert into a non-full cache" : updated ? "update" : "rejected insert") +
                         " removed live entries " + kstr(missing), true);
                adopt_missing();
                if (failed())
                    return res;
            }
            else if (!is_ttl())
            {
                eval("C02");
                int64_t want = o0.size + (created ? 1 : 0);
                if (o1.size != want &&
                    fail({"C02"}, "observer.size_after_insert",
                         "size() went " + std::to_string(o0.size) + " -> " + std::to_string(o1.size) + " on " +
                             (created ? "insert of a new key" : "update / rejected insert"), true))
                    return res;
            }
        }
        check_obs(o1, "after insert", tr.purge_every_call);
        return res;
    }

    Found do_find(const Op& op, bool with_count)
    {
        const int  k      = op.key;
        const bool isLive = live.count(k) != 0;
        const bool peek   = op.peek && (tr.has_peek);
        ++st.calls;
        ++s_calls_step;
        if (g_seq_call_hook)
            g_seq_call_hook(single_noeffect(with_count ? OpKind::find_uc : OpKind::find, k, 0, op.peek) ? "noeffect" : "");
        Found f = with_count ? S->find_uc(k, op.peek) : S->find(k, op.peek);
        if (g_seq_call_hook)
            g_seq_call_hook("");
        note({f.hit, f.val, (int64_t)f.count});
        mirror_D(op, with_count ? Result{f.hit, f.val, (int64_t)f.count} : Result{f.hit, f.val});
        eval("C01");
        if (isLive)
        {
            MEntry& e = live[k];
            if (is_ttl())
            {
                eval("C05");
                nt("C05");
                if (e.deadline - now == 1)
                    st.bump("fault.lookup_1ns_before_deadline");
            }
            if (!f.hit)
            {
                std::string d = "lookup of live key " + std::to_string(k) + " missed";
                if (is_ttl())
                    fail({"C05"}, "ttl.live_entry_missed", d + " (deadline " + std::to_string(e.deadline) + ", now " + std::to_string(now) + ")", true);
                else
                    fail({"C03"}, "retention.live_entry_missed", d, true);
                // adopt: whether the entry is really gone is settled by the probe that follows
                return f;
            }
            if (tr.has_values && f.val != e.val)
            {
                attribute_wrong_value(k, f.val, "find");
                if (failed())
                    return f;
            }
            if (!peek)
            {
                e.use = ++stamp;
                e.count += 1;
                e.touch = now;
            }
            if (with_count)
            {
                eval("C11");
                nt("C11");
                if (f.count != e.count)
                {
                    if (fail({"C11"}, "lfu.use_count_reported",
                             "find_with_use_count(" + std::to_string(k) + ", peek=" + std::to_string(op.peek) + ") reported " +
                                 std::to_string(f.count) + " expected " + std::to_string(e.count), true))
                        return f;
                    e.count = f.count;
                }
            }
            if (recycled.count(k))
                nt("C01");
        }
        else
        {
            if (zomb.count(k) || (gone.count(k) && gone[k] == Gone::expired))
            {
                eval("C04");
                nt("C04");
                st.bump("probe.lookup_of_expired");
            }
            if (f.hit)
                hit_on_dead(k, "find");
        }
        return f;
    }

    bool do_erase(const Op& op)
    {
        const int   k      = op.key;
        const bool  isLive = live.count(k) != 0;
        const bool  isZ    = !isLive && zomb.count(k) != 0;
        const Obs   o0     = read_obs(*S);
        const int64_t z0   = is_ttl() ? o0.size - (int64_t)live.size() : 0;
        ++st.calls;
        ++s_calls_step;
        if (g_seq_call_hook)
            g_seq_call_hook(!isLive ? "noeffect" : "");
        bool res = S->erase(k);
        if (g_seq_call_hook)
            g_seq_call_hook("");
        note({res});
        mirror_D(op, {res});
        if (isLive)
        {
            if (res)
            {
                remove_live(k, Gone::erased);
                any_erased = true;
                nt("C03");
            }
            else
                st.bump("open.erase_live_returned_false");
        }
        else if (isZ)
        {
            if (res)
            {
                if (z0 <= 0)
                {
                    fail({"C02"}, "erase.true_without_resident", "erase of key " + std::to_string(k) + " returned true but nothing expired is resident");
                    return res;
                }
                zomb.erase(k);
                st.bump("open.erase_expired_true");
            }
            else
                st.bump("open.erase_expired_false");
        }
        const Obs o1 = read_obs(*S);
        if (res && isLive)
        {
            // a successfully erased key must be absent
            Found f = quiet_find(*S, k);
            eval("C01");
            if (f.hit)
            {
                fail({"C01"}, "lookup.erased_key_found", "key " + std::to_string(k) + " still found after erase returned true");
                return res;
            }
            twin_probe(k, f, "after erase");
        }
        std::set<int> missing = probe_live("after erase", true, k);
        if (failed())
            return res;
        eval("C03");
        if (!missing.empty())
        {
            fail(loss_props({"C03"}), "retention.lost_on_erase", "erase(" + std::to_string(k) + ") removed other live entries " + kstr(missing), true);
            for (int m : missing)
                if (live.count(m))
                    remove_live(m, Gone::evicted);
            if (failed())
                return res;
        }
        else if (!is_ttl())
        {
            eval("C02");
            int64_t want = o0.size - ((res && isLive) ? 1 : 0);
            if (o1.size != want &&
                fail({"C02"}, "observer.size_after_erase",
                     "size() went " + std::to_string(o0.size) + " -> " + std::to_string(o1.size) + " on erase returning " + std::to_string(res), true))
                return res;
        }
        check_obs(o1, "after erase", tr.purge_every_call);
        return res;
    }

    // ----------------------------------------------------------- B (bare) ----
    bool single_noeffect(OpKind kind, int key, int allow, bool peek) const
    {
        bool isLive = live.count(key) != 0;
        bool isZ    = !isLive && zomb.count(key) != 0;
        switch (kind)
        {
            case OpKind::find:
                return (peek && tr.has_peek) || !isLive;
            case OpKind::find_uc:
                return peek || !isLive;
            case OpKind::insert:
                if (isLive)
                    return allow == ALLOW_INSERT;
                if (isZ)
                    return false;
                return allow == ALLOW_UPDATE;
            case OpKind::erase:
                return !isLive;
            default:
                return false;
        }
    }
    bool predict_noeffect(const Op& op) const
    {
        switch (op.kind)
        {
            case OpKind::find:
            case OpKind::find_uc:
            case OpKind::insert:
            case OpKind::erase:
                return single_noeffect(op.kind, op.key, op.allow, op.peek);
            case OpKind::find_range:
            case OpKind::find_fill:
                for (auto& it : op.items)
                    if (!single_noeffect(OpKind::find, it.key, 0, op.peek))
                        return false;
                return true;
            case OpKind::insert_range:
                for (auto& it : op.items)
                    if (!single_noeffect(OpKind::insert, it.key, op.allow, false))
                        return false;
                return true;
            case OpKind::erase_range:
                for (auto& it : op.items)
                    if (!single_noeffect(OpKind::erase, it.key, 0, false))
                        return false;
                return true;
            default:
                return false;
        }
    }
    // Is the result of this op exempt from the bare-twin comparison (C19's own exemptions)?
    // second: a differing exempt result means the logical states may have diverged.
    std::pair<bool, bool> b_exempt(const Op& op)
    {
        b_ambiguous = false;
        if (!is_ttl())
            return {false, false};
        // "expired and not rewritten since": the bare twin may still hold such an entry long
        // after a probe made S drop it
        auto isz = [&](int k) {
            auto g = gone.find(k);
            return !live.count(k) && g != gone.end() && g->second == Gone::expired;
        };
        switch (op.kind)
        {
            case OpKind::clean:
            case OpKind::size:
            case OpKind::empty:
                return {true, false};
            case OpKind::insert:
                return {op.allow == ALLOW_UPDATE && isz(op.key), true};
            case OpKind::erase:
                return {isz(op.key), false};
            case OpKind::insert_range:
                if (op.allow == ALLOW_UPDATE)
                {
                    std::set<int> zk;
                    for (auto& it : op.items)
                        if (isz(it.key))
                            zk.insert(it.key);
                    // with two or more such keys equal counts do not imply that the same entries
                    // were revived: the twins may diverge silently
                    if (zk.size() >= 2)
                        b_ambiguous = true;
                    if (!zk.empty())
                        return {true, true};
                }
                return {false, false};
            case OpKind::erase_range:
                for (auto& it : op.items)
                    if (isz(it.key))
                        return {true, false};
                return {false, false};
            default:
                return {false, false};
        }
    }

    // ------------------------------------------------------------- one step ----
    // Applies one single-key op to S with all checks, returns its encoded result.
    Result single_on_S(const Op& op)
    {
        Result r;
        switch (op.kind)
        {
            case OpKind::insert:
                r.push_back(do_insert(op));
                break;
            case OpKind::erase:
                r.push_back(do_erase(op));
                break;
            case OpKind::find:
            {
                Found f = do_find(op, false);
                r.push_back(f.hit);
                r.push_back(f.val);
                break;
            }
            case OpKind::find_uc:
            {
                Found f = do_find(op, true);
                r.push_back(f.hit);
                r.push_back(f.val);
                r.push_back((int64_t)f.count);
                break;
            }
            case OpKind::age:
            {
                size_t want = model_age();
                ++st.calls;
                size_t got = S->age();
                note({(int64_t)got});
                mirror_D(op, {(int64_t)got});
                r.push_back((int64_t)got);
                eval("C14");
                if (got != want)
                    fail({"C14"}, "lfuda.aged_count",
                         "dynamically_age() returned " + std::to_string(got) + " but " + std::to_string(want) +
                             " resident entries were idle for longer than the tick", true);
                break;
            }
            case OpKind::clean:
            {
                Obs     o0 = read_obs(*S);
                int64_t z0 = o0.size - (int64_t)live.size();
                ++st.calls;
                ++s_calls_step;
                size_t got = S->clean();
                note({(int64_t)got});
                mirror_D(op, {(int64_t)got});
                r.push_back((int64_t)got);
                eval("C17");
                if (z0 > 0)
                {
                    nt("C17");
                    st.bump("probe.clean_with_expired_resident");
                }
                if (z0 >= 0 && (int64_t)got != z0)
                {
                    if (fail({"C17"}, "clean.count",
                             "clean_expired_values() returned " + std::to_string(got) + " but " + std::to_string(z0) +
                                 " expired entries were resident", true))
                        break;
                }
                Obs o1 = read_obs(*S);
                if (o1.size != (int64_t)live.size())
                {
                    if (fail({"C17"}, "clean.size_after",
                             "after clean_expired_values() size()=" + std::to_string(o1.size) + " but " +
                                 std::to_string(live.size()) + " entries are live", true))
                        break;
                }
                check_obs(o1, "after clean", true);
                break;
            }
            case OpKind::clear:
            {
                ++st.calls;
                S->clear();
                mirror_D(op, {});
                for (auto& kv : live)
                {
                    gone[kv.first] = Gone::cleared;
                }
                if (!live.empty())
                    any_removed = true;
                live.clear();
                for (int k : zomb)
                    gone[k] = Gone::cleared;
                zomb.clear();
                z_prev = newly_expired = 0;
                Obs o1 = read_obs(*S);
                eval("C20");
                nt("C20");
                if (o1.size != 0 || !o1.empty)
                    fail({"C20"}, "clear.not_empty", "size()=" + std::to_string(o1.size) + " right after clear()");
                break;
            }
            case OpKind::update_ttl:
                ++st.calls;
                S->update_ttl(op.ttl_ms);
                mirror_D(op, {});
                if (op.ttl_ms < cur_ttl_ms)
                    st.bump("fault.ttl_shortened");
                else if (op.ttl_ms > cur_ttl_ms)
                    st.bump("fault.ttl_lengthened");
                cur_ttl_ms = op.ttl_ms;
                break;
            case OpKind::size:
                r.push_back((int64_t)S->size());
                mirror_D(op, r);
                break;
            case OpKind::empty:
                r.push_back(S->empty());
                mirror_D(op, r);
                break;
            case OpKind::capacity:
                r.push_back((int64_t)S->capacity());
                mirror_D(op, r);
                break;
            default:
                break;
        }
        return r;
    }

    // Expands a range op into its singles (in effective iteration order).
    std::vector<Op> expand(const Op& op)
    {
        std::vector<Op> out;
        auto            items = effective_items(op);
        for (auto& it : items)
        {
            Op s;
            switch (op.kind)
            {
                case OpKind::insert_range:
                    s.kind   = OpKind::insert;
                    s.key    = it.key;
                    s.val    = it.val;
                    s.allow  = op.allow;
                    s.ttl_ms = it.ttl_ms;
                    break;
                case OpKind::erase_range:
                    s.kind = OpKind::erase;
                    s.key  = it.key;
                    break;
                default:
                    s.kind = OpKind::find;
                    s.key  = it.key;
                    s.peek = op.peek;
                    break;
            }
            out.push_back(s);
        }
        return out;
    }

    // D mirrors S call by call (the op here, the probes in twin_probe), so every result must be equal.
    void mirror_D(const Op& op, const Result& sres)
    {
        if (!D)
            return;
        ++st.calls;
        Result d = D->exec(op);
        note(d);
        eval("C20");
        nt("C20");
        if (d != sres)
        {
            if (!fail({"C20"}, "clear.twin_result",
                      std::string(op_name(op.kind)) + " returned " + result_str(sres) + " on the cleared instance but " +
                          result_str(d) + " on a freshly constructed one", true))
                D.reset();
        }
    }

    void run_step(const Step& stp)
    {
        const Op& op   = stp.op;
        aged_this_step = false;
        expired_first_this_step = false;
        doa_step       = 0;
        s_calls_step   = 0;
        now += stp.adv_ns;
        st.sim_ns += stp.adv_ns;
        sched::clock_set(now);
        if (stp.adv_ns == 0)
            st.bump("fault.clock_freeze");
        else if (stp.adv_ns >= 3600LL * 1000 * MS)
            st.bump("fault.clock_jump");
        if (is_ttl())
            for (auto& kv : live)
            {
                if (kv.second.deadline == now)
                    st.bump("fault.land_on_deadline");
                else if (kv.second.deadline == now + 1)
                    st.bump("fault.land_1ns_before_deadline");
                else if (kv.second.deadline == now - 1)
                    st.bump("fault.land_1ns_after_deadline");
            }
        if (tr.policy == Policy::lfuda)
            for (auto& kv : live)
            {
                int64_t b = kv.second.touch + cfg.tick_ms * MS;
                if (b == now)
                    st.bump("fault.land_on_age_boundary");
                else if (b + 1 == now)
                    st.bump("fault.land_1ns_after_age_boundary");
            }
        {
            size_t before = live.size();
            expire();
            if (live.size() != before && !live.empty())
                st.bump("probe.partial_expiry");
        }
        if (trace)
            tr_line("step " + std::to_string(step_no) + " t=" + std::to_string(now) + " " + op.to_json().dump());

        // ---- pre-observation at the new instant
        Obs o_pre = read_obs(*S);
        check_obs(o_pre, "before op", false);
        if (failed())
            return;
        if (is_ttl() && stp.adv_ns > 0 && !live.empty())
        {
            // nothing but time has changed since the last probe: a loss here is an early expiry
            std::set<int> missing = probe_live("after clock advance");
            if (failed())
                return;
            eval("C05");
            if (!missing.empty())
            {
                {
                    // in ut_map / ut_set size() must equal the number of live keys after every call (the probe
                    // just made calls): an early expiry shows there as an undercount as well
                    std::vector<const char*> pr = {"C05", "C03"}; // gone before its expiry, and not by erase / eviction
                    ++st.calls;
                    if ((int64_t)S->size() < (int64_t)live.size())
                        pr.push_back("C02");
                    fail(pr, "ttl.expired_early",
                         "keys " + kstr(missing) + " vanished when only the clock moved (now " + std::to_string(now) + ")", true);
                }
                for (int m : missing)
                    if (live.count(m))
                        remove_live(m, Gone::expired);
                if (failed())
                    return;
            }
        }

        // ---- prediction for the bare twin, on the state before the op
        const bool skip_on_B = B && stp.splice && predict_noeffect(op);
        auto       exempt    = b_exempt(op);
        // (b_exempt is asked again for every single of a range below and resets the flag: keep the step's answer)
        const bool b_ambiguous_step = b_ambiguous;

        // ---- the op on S (singles), R (as written)
        twins_in_sync = false;
        Result rres; // what R (or S for non-range ops) returned, for the B comparison
        if (op.is_range())
        {
            std::vector<Op> singles = expand(op);
            Result          cat;
            int64_t         count = 0;
            for (auto& s : singles)
            {
                // S is probed between the singles and the other instances are not: where lookups reap expired
                // entries more eagerly than today, an update-only insert or an erase addressed to a key that
                // expired (possibly earlier in this very range) may legitimately come out differently there
                const auto sx = tr.purge_every_call ? std::pair<bool, bool>{false, false} : b_exempt(s);
                if (sx.first)
                {
                    exempt.first = true;
                    exempt.second |= sx.second;
                }
                Result r = single_on_S(s);
                if (failed())
                    return;
                if (op.kind == OpKind::insert_range || op.kind == OpKind::erase_range)
                    count += r[0];
                else
                {
                    cat.push_back(s.key);
                    cat.push_back(r[0]);
                    cat.push_back(r[1]);
                }
            }
            if (op.kind == OpKind::insert_range || op.kind == OpKind::erase_range)
                cat.push_back(count);
            if (R)
            {
                ++st.calls;
                // fault: the clock moves on between two reads inside the range call (it always does on a real
                // machine).  The call as a whole must still judge every element at one instant; the first read
                // returns the step's instant, so a call that reads the clock once is not affected at all.
                if (stp.drift_ns)
                {
                    sched::clock_drift(stp.drift_ns);
                    st.bump("fault.clock_moves_between_reads_in_range_call");
                }
                Result rr = R->exec(op);
                if (stp.drift_ns)
                {
                    if (sched::clock_drift_reads() > 1)
                        st.bump("probe.range_call_read_clock_more_than_once");
                    sched::clock_drift(0);
                }
                note(rr);
                eval("C18");
                nt("C18");
                st.bump(std::string("probe.range.") + op_name(op.kind));
                if (singles.size() > cfg.capacity && op.kind == OpKind::insert_range)
                    st.bump("probe.range_longer_than_capacity");
                if (rr != cat && exempt.first && !tr.purge_every_call)
                {
                    st.bump("open.c18_exempt_result_differs");
                    drop_R(); // the logical states may have diverged legitimately
                }
                else if (rr != cat)
                {
                    // insert_range's count is also what C09 speaks about ("reports exactly the writes that took effect")
                    std::vector<const char*> pr = {"C18"};
                    if (op.kind == OpKind::insert_range)
                        pr.push_back("C09");
                    // a range lookup that reports something else than the verified single lookups reports a wrong
                    // value or a wrong presence: C01's statement covers find_range / find_range_fill by name
                    if (op.kind == OpKind::find_range || op.kind == OpKind::find_fill)
                        pr.push_back("C01");
                    // ut_map / ut_set: a range call that treats an expired key differently from the single calls did
                    // not purge at its start
                    if (tr.purge_every_call)
                        for (auto& sgl : singles)
                        {
                            auto g = gone.find(sgl.key);
                            if (!live.count(sgl.key) && g != gone.end() && g->second == Gone::expired)
                            {
                                pr.push_back("C17");
                                break;
                            }
                        }
                    if (fail(pr, "range.result",
                             std::string(op_name(op.kind)) + " returned " + result_str(rr) +
                                 " but the same single operations in order return " + result_str(cat), true))
                        return;
                    drop_R();
                }
                if (R && tr.purge_every_call)
                {
                    // a range call of any length, the empty one included, is a call: size() is exact after it
                    Obs ro = read_obs(*R);
                    eval("C02");
                    if (ro.size - (int64_t)live.size() > doa_step || ro.size < (int64_t)live.size())
                        if (fail({"C02", "C17"}, "observer.range_purge_incomplete",
                                 std::string(op_name(op.kind)) + " of " + std::to_string(singles.size()) + " elements left size()=" +
                                     std::to_string(ro.size) + " with " + std::to_string(live.size()) + " live keys", true))
                            return;
                }
                rres = rr;
            }
            else
                rres = cat;
        }
        else
        {
            Result r = single_on_S(op);
            if (failed())
                return;
            if (R)
            {
                ++st.calls;
                Result rr = R->exec(op);
                note(rr);
                eval("C18");
                if (rr != r && exempt.first && !tr.purge_every_call)
                {
                    st.bump("open.c18_exempt_result_differs");
                    if (exempt.second)
                        drop_R();
                }
                else if (rr != r && !(is_ttl() && op.kind == OpKind::clean))
                {
                    if (fail({"C18"}, "range.later_result",
                             std::string(op_name(op.kind)) + " returned " + result_str(rr) +
                                 " on the range-driven instance but " + result_str(r) + " on the single-driven one", true))
                        return;
                    drop_R();
                }
            }
            rres = r;
        }

        twins_in_sync = true;

        // ---- the op on B
        if (B)
        {
            if (skip_on_B)
            {
                st.bump("probe.noeffect_call_spliced");
                nt("C19");
            }
            else
            {
                ++st.calls;
                Result br = B->exec(op);
                note(br);
                if (b_compare)
                {
                    if (exempt.first)
                    {
                        if (b_ambiguous_step)
                        {
                            b_compare = false;
                            st.bump("open.c19_comparison_stopped");
                        }
                        else if (br != rres)
                        {
                            st.bump("open.c19_exempt_result_differs");
                            if (exempt.second)
                            {
                                b_compare = false;
                                st.bump("open.c19_comparison_stopped");
                            }
                        }
                    }
                    else
                    {
                        eval("C19");
                        if (br != rres)
                        {
                            if (fail({"C19"}, "noeffect.later_result",
                                     std::string(op_name(op.kind)) + " returned " + result_str(rres) +
                                         " after probes / no-effect calls but " + result_str(br) + " without them", true))
                                return;
                            b_compare = false;
                        }
                    }
                }
            }
        }

        // ---- clear(): new fresh twin
        if (op.kind == OpKind::clear && tr.has_clear)
        {
            Config c2 = cfg;
            c2.ttl_ms = cur_ttl_ms;
            D         = fresh(c2);
            st.bump("probe.clear_twin_created");
            // no key may be found right after clear()
            for (int k = 0; k < (int)cfg.universe; ++k)
            {
                Found f = quiet_find(*S, k);
                eval("C20");
                if (f.hit)
                {
                    fail({"C20", "C01"}, "clear.key_found", "key " + std::to_string(k) + " found right after clear()");
                    return;
                }
                twin_probe(k, f, "after clear");
                if (failed())
                    return;
            }
        }

        // ---- probes
        Obs           o_post  = read_obs(*S);
        std::set<int> missing = probe_live("after op");
        if (failed())
            return;
        eval("C03");
        if (!missing.empty())
        {
            if (op.kind == OpKind::clean)
                fail(loss_props({"C17", "C03"}), "clean.removed_live", "clean_expired_values() removed live entries " + kstr(missing), true);
            else
                fail(loss_props({"C03"}), "retention.lost", std::string(op_name(op.kind)) + " removed live entries " + kstr(missing), true);
            for (int m : missing)
                if (live.count(m))
                    remove_live(m, Gone::evicted);
            if (failed())
                return;
        }
        if (stp.probe_nonlive)
        {
            probe_nonlive("probe");
            if (failed())
                return;
        }
        post_probe_obs(o_post);
        if (failed())
            return;
        if (tr.purge_every_call && s_calls_step > 0 && op.kind != OpKind::clear && op.kind != OpKind::update_ttl && op.kind != OpKind::size &&
            op.kind != OpKind::empty)
        {
            // ut_map / ut_set purge at the start of every call: size() is exact now
            Obs o = read_obs(*S);
            check_obs(o, "after purging call", true);
        }
    }

    // --------------------------------------------------------------- driver ----
    SeqOutcome run()
    {
        sched::sim_thread(true);
        sched::rd_set(plan.rd.data(), plan.rd.size());
        now        = plan.clock_start;
        cur_ttl_ms = cfg.ttl_ms;
        sched::clock_set(now);
        tracked_reset_errors();
        const TrackedStats t0 = tracked_stats();

        bool any_range = false, any_splice = false;
        for (auto& s : plan.steps)
        {
            any_range |= s.op.is_range();
            any_splice |= s.splice;
        }
        S = fresh(cfg);
        if (!S)
        {
            fail({}, "harness.unsupported_config", "no instantiation for this key/value combination");
            sched::sim_thread(false);
            return {viol, other, st};
        }
        if (any_range)
            R = fresh(cfg);
        // the bare twin is also what shows that the probes themselves have no effect
        B = fresh(cfg);
        (void)any_splice;

        for (size_t i = 0; i < plan.steps.size() && !failed() && !stop_after_step; ++i)
        {
            step_no = (int)i;
            run_step(plan.steps[i]);
        }
        if (stop_after_step)
            stop = true;
        step_no = (int)plan.steps.size();

        // final sweep: every key of the universe
        if (!failed())
        {
            Obs o = read_obs(*S);
            probe_live("final");
            if (!failed())
                probe_nonlive("final");
            if (!failed())
                post_probe_obs(o);
        }

        // teardown at this (arbitrary) point of the history: value lifetime part of C08
        S.reset();
        drop_R();
        B.reset();
        D.reset();
        eval("C08");
        if (cfg.vt == ValT::t)
        {
            nt("C08");
            const TrackedStats t1 = tracked_stats();
            if (!failed())
            {
                if (t1.bad_destroy)
                    fail({"C08"}, "lifetime.double_destroy", std::to_string(t1.bad_destroy) + " destructor call(s) on objects that were not alive");
                else if (t1.bad_construct)
                    fail({"C08"}, "lifetime.construct_over_live", std::to_string(t1.bad_construct) + " constructor call(s) over live objects");
                else if (t1.live != t0.live)
                    fail({"C08"}, "lifetime.leak", std::to_string(t1.live - t0.live) + " value object(s) still alive after the container was destroyed");
            }
        }
        else if (!recycled.empty())
            nt("C08");
        sched::sim_thread(false);
        return {viol, other, st};
    }
};

} // namespace

SeqOutcome run_seq(const SeqPlan& plan_in, std::string* trace, const std::string& focus)
{
    SeqPlan plan = plan_in;
    plan.normalize();
    SeqRun r(plan, trace, focus);
    return r.run();
}

} // namespace sim
