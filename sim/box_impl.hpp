// Typed adapters from the abstract Box interface to the real containers.
// Included by exactly one translation unit per container (box_<name>.cpp).
#pragma once
#include "box.hpp"
#include "sched.hpp"

#include <atomic>
#include <chrono>
#include <cstdio>
#include <list>
#include <map>
#include <optional>
#include <random>
#include <set>
#include <string>
#include <tuple>
#include <vector>

#include "cappuccino/allow.hpp"
#include "cappuccino/lock.hpp"
#include "cappuccino/peek.hpp"

namespace sim
{
// ------------------------------------------------------------------ keys ----
struct CKey
{
    uint64_t id{0};
    bool     operator==(const CKey& o) const { return id == o.id; }
    bool     operator<(const CKey& o) const { return id < o.id; }
};
} // namespace sim
namespace std
{
template<>
struct hash<sim::CKey>
{
    // Everything lands in one of two hash values: long collision chains in the index.
    size_t operator()(const sim::CKey& k) const noexcept { return (size_t)(k.id & 1u); }
};
} // namespace std

namespace sim
{
// Tracked value type: owns heap memory, registers every live instance.
void tracked_add(const void* p);
void tracked_del(const void* p);

struct Tracked
{
    uint64_t* p;
    Tracked() : p(new uint64_t(0)) { tracked_add(this); }
    explicit Tracked(uint64_t v) : p(new uint64_t(v)) { tracked_add(this); }
    Tracked(const Tracked& o) : p(new uint64_t(o.p ? *o.p : 0xdeadULL)) { tracked_add(this); }
    Tracked(Tracked&& o) noexcept : p(o.p)
    {
        o.p = nullptr;
        tracked_add(this);
    }
    Tracked& operator=(const Tracked& o)
    {
        if (this != &o)
        {
            uint64_t* n = new uint64_t(o.p ? *o.p : 0xdeadULL);
            delete p;
            p = n;
        }
        return *this;
    }
    Tracked& operator=(Tracked&& o) noexcept
    {
        if (this != &o)
        {
            delete p;
            p   = o.p;
            o.p = nullptr;
        }
        return *this;
    }
    ~Tracked()
    {
        tracked_del(this);
        delete p;
        p = nullptr;
    }
    uint64_t get() const { return p ? *p : 0xdeadULL; }
    // a regular type: a change to the library that starts comparing or ordering values must
    // still compile into the harness, or the change could not be judged at all
    friend bool operator==(const Tracked& a, const Tracked& b) { return a.get() == b.get(); }
    friend bool operator!=(const Tracked& a, const Tracked& b) { return a.get() != b.get(); }
    friend bool operator<(const Tracked& a, const Tracked& b) { return a.get() < b.get(); }
};

template<typename K>
struct KeyCodec;
template<>
struct KeyCodec<uint64_t>
{
    static uint64_t enc(int k) { return (uint64_t)k; }
    static int      dec(const uint64_t& k) { return (int)k; }
};
template<>
struct KeyCodec<std::string>
{
    static std::string enc(int k)
    {
        char buf[48];
        snprintf(buf, sizeof buf, "key-%06d-padding-beyond-sso", k);
        return buf;
    }
    static int dec(const std::string& k) { return atoi(k.c_str() + 4); }
};
template<>
struct KeyCodec<CKey>
{
    static CKey enc(int k) { return CKey{(uint64_t)k}; }
    static int  dec(const CKey& k) { return (int)k.id; }
};

template<typename V>
struct ValCodec;
template<>
struct ValCodec<uint64_t>
{
    static uint64_t enc(uint32_t v) { return v; }
    static uint32_t dec(const uint64_t& v) { return (uint32_t)v; }
};
template<>
struct ValCodec<std::string>
{
    static std::string enc(uint32_t v)
    {
        char buf[48];
        snprintf(buf, sizeof buf, "val-%010u-padding-beyond-sso", v);
        return buf;
    }
    static uint32_t dec(const std::string& v)
    {
        if (v.size() < 14)
            return 0xffffffffu; // not a value we ever wrote
        return (uint32_t)strtoul(v.c_str() + 4, nullptr, 10);
    }
};
template<>
struct ValCodec<Tracked>
{
    static Tracked  enc(uint32_t v) { return Tracked((uint64_t)v); }
    static uint32_t dec(const Tracked& v) { return (uint32_t)v.get(); }
};

// ------------------------------------------------------- generic adapter ----
// C is the concrete container type, TAG says which API flavour it has.
template<Cont TAG, typename C, typename K, typename V>
struct BoxT final : Box
{
    using KC = KeyCodec<K>;
    using VC = ValCodec<V>;
    using ms = std::chrono::milliseconds;

    static constexpr bool kEnumPeek = (TAG == Cont::lru || TAG == Cont::mru || TAG == Cont::tlru || TAG == Cont::utlru);
    static constexpr bool kBoolPeek = (TAG == Cont::lfu || TAG == Cont::lfuda);
    static constexpr bool kIsSet    = (TAG == Cont::ut_set);
    static constexpr bool kIsTlru   = (TAG == Cont::tlru);
    static constexpr bool kIsFifo   = (TAG == Cont::fifo);
    static constexpr uint32_t kStaleVal = 0x7ffffff0u; // never written by any plan

    std::unique_ptr<C> c;

    explicit BoxT(const Config& cfg)
    {
        if constexpr (TAG == Cont::lfuda)
            c = std::make_unique<C>((size_t)cfg.capacity, ms{cfg.tick_ms}, (float)cfg.ratio, (float)cfg.mlf);
        else if constexpr (TAG == Cont::utlru)
            c = std::make_unique<C>(ms{cfg.ttl_ms}, (size_t)cfg.capacity, (float)cfg.mlf);
        else if constexpr (TAG == Cont::ut_map || TAG == Cont::ut_set)
            c = std::make_unique<C>(ms{cfg.ttl_ms});
        else
            c = std::make_unique<C>((size_t)cfg.capacity, (float)cfg.mlf);
    }

    // Runs f() (one call into the container, arguments already built) with the thread marked as
    // "inside a library call", which is what the scheduler's lock-discipline calibration keys on.
    template<typename F>
    static auto in_call(F&& f)
    {
        struct Scope
        {
            Scope() { sched::call_enter(); }
            ~Scope() { sched::call_leave(); }
        } scope;
        return f();
    }

    static cappuccino::allow al(int a) { return (cappuccino::allow)(uint64_t)a; }
    static cappuccino::peek  pk(bool p) { return p ? cappuccino::peek::yes : cappuccino::peek::no; }

    bool insert(int key, uint32_t val, int allow, int64_t ttl_ms) override
    {
        (void)ttl_ms;
        (void)val;
        auto k = KC::enc(key);
        // half of the calls that ask for the default behaviour really use the default argument
        const bool defarg = (allow == ALLOW_BOTH) && (key % 2 == 0);
        if constexpr (kIsSet)
        {
            if (defarg)
                return in_call([&] { return c->insert(k); });
            return in_call([&] { return c->insert(k, al(allow)); });
        }
        else
        {
            auto v = VC::enc(val);
            if constexpr (kIsTlru)
            {
                if (defarg)
                    return in_call([&] { return c->insert(ms{ttl_ms}, k, std::move(v)); });
                return in_call([&] { return c->insert(ms{ttl_ms}, k, std::move(v), al(allow)); });
            }
            else
            {
                if (defarg)
                    return in_call([&] { return c->insert(k, std::move(v)); });
                return in_call([&] { return c->insert(k, std::move(v), al(allow)); });
            }
        }
    }

    size_t insert_range(const std::vector<Item>& items, int allow, int form) override
    {
        if constexpr (kIsTlru)
        {
            if (form == 1)
            {
                std::list<std::tuple<ms, K, V>> r;
                for (auto& it : items)
                    r.emplace_back(ms{it.ttl_ms}, KC::enc(it.key), VC::enc(it.val));
                return in_call([&] { return c->insert_range(r, al(allow)); });
            }
            std::vector<std::tuple<ms, K, V>> r;
            for (auto& it : items)
                r.emplace_back(ms{it.ttl_ms}, KC::enc(it.key), VC::enc(it.val));
            return in_call([&] { return c->insert_range(std::move(r), al(allow)); });
        }
        else if constexpr (kIsSet)
        {
            if (form == 2)
            {
                std::set<K> r;
                for (auto& it : items)
                    r.insert(KC::enc(it.key));
                return in_call([&] { return c->insert_range(r, al(allow)); });
            }
            if (form == 1)
            {
                std::list<K> r;
                for (auto& it : items)
                    r.push_back(KC::enc(it.key));
                return in_call([&] { return c->insert_range(r, al(allow)); });
            }
            std::vector<K> r;
            for (auto& it : items)
                r.push_back(KC::enc(it.key));
            return in_call([&] { return c->insert_range(std::move(r), al(allow)); });
        }
        else
        {
            if (form == 2)
            {
                std::map<K, V> r;
                for (auto& it : items)
                    r.emplace(KC::enc(it.key), VC::enc(it.val));
                return in_call([&] { return c->insert_range(r, al(allow)); });
            }
            if (form == 1)
            {
                std::list<std::pair<K, V>> r;
                for (auto& it : items)
                    r.emplace_back(KC::enc(it.key), VC::enc(it.val));
                return in_call([&] { return c->insert_range(r, al(allow)); });
            }
            std::vector<std::pair<K, V>> r;
            for (auto& it : items)
                r.emplace_back(KC::enc(it.key), VC::enc(it.val));
            if constexpr (kIsFifo)
            {
                if (form == 3)
                    return in_call([&] { return c->insert(r.begin(), r.end(), al(allow)); });
            }
            return in_call([&] { return c->insert_range(std::move(r), al(allow)); });
        }
    }

    bool erase(int key) override
    {
        auto k = KC::enc(key);
        return in_call([&] { return c->erase(k); });
    }

    size_t erase_range(const std::vector<Item>& keys, int form) override
    {
        if (form == 1)
        {
            std::set<K> r;
            for (auto& it : keys)
                r.insert(KC::enc(it.key));
            return in_call([&] { return c->erase_range(r); });
        }
        std::vector<K> r;
        for (auto& it : keys)
            r.push_back(KC::enc(it.key));
        if constexpr (kIsFifo)
        {
            if (form == 3)
                return in_call([&] { return c->erase(r.begin(), r.end()); });
        }
        return in_call([&] { return c->erase_range(r); });
    }

    template<typename O>
    static Found dec_opt(const O& o)
    {
        Found f;
        if constexpr (kIsSet)
        {
            f.hit = o;
        }
        else
        {
            if (o.has_value())
            {
                f.hit = true;
                f.val = VC::dec(*o);
            }
        }
        return f;
    }

    Found find(int key, bool peek) override
    {
        (void)peek;
        auto k = KC::enc(key);
        if constexpr (kEnumPeek || kBoolPeek)
        {
            if (!peek && key % 2 == 0)
                return dec_opt(in_call([&] { return c->find(k); })); // default peek argument
        }
        if constexpr (kEnumPeek)
            return dec_opt(in_call([&] { return c->find(k, pk(peek)); }));
        else if constexpr (kBoolPeek)
            return dec_opt(in_call([&] { return c->find(k, peek); }));
        else
            return dec_opt(in_call([&] { return c->find(k); }));
    }

    template<typename R>
    auto call_find_range(const R& r, bool peek)
    {
        (void)peek;
        if constexpr (kEnumPeek || kBoolPeek)
        {
            if (!peek && std::size(r) % 2 == 0)
                return in_call([&] { return c->find_range(r); }); // default peek argument
        }
        if constexpr (kEnumPeek)
            return in_call([&] { return c->find_range(r, pk(peek)); });
        else if constexpr (kBoolPeek)
            return in_call([&] { return c->find_range(r, peek); });
        else
            return in_call([&] { return c->find_range(r); });
    }
    template<typename R>
    void call_find_fill(R& r, bool peek)
    {
        (void)peek;
        if constexpr (kEnumPeek || kBoolPeek)
        {
            if (!peek && std::size(r) % 2 == 0)
            {
                in_call([&] { c->find_range_fill(r); return 0; }); // default peek argument
                return;
            }
        }
        if constexpr (kEnumPeek)
            in_call([&] { c->find_range_fill(r, pk(peek)); return 0; });
        else if constexpr (kBoolPeek)
            in_call([&] { c->find_range_fill(r, peek); return 0; });
        else
            in_call([&] { c->find_range_fill(r); return 0; });
    }
    template<typename Out>
    static void encode_pairs(const Out& out, Result& res)
    {
        for (auto& kv : out)
        {
            Found f = dec_opt(kv.second);
            res.push_back(KC::dec(kv.first));
            res.push_back(f.hit);
            res.push_back(f.val);
        }
    }

    void find_range(const std::vector<Item>& keys, bool peek, int form, Result& res) override
    {
        if (form == 1)
        {
            std::set<K> r;
            for (auto& it : keys)
                r.insert(KC::enc(it.key));
            encode_pairs(call_find_range(r, peek), res);
            return;
        }
        std::vector<K> r;
        for (auto& it : keys)
            r.push_back(KC::enc(it.key));
        if constexpr (kIsFifo)
        {
            if (form == 3)
            {
                encode_pairs(in_call([&] { return c->find(r.begin(), r.end(), r.size()); }), res);
                return;
            }
            if (form == 4)
            {
                encode_pairs(in_call([&] { return c->find(r.begin(), r.end()); }), res);
                return;
            }
        }
        encode_pairs(call_find_range(r, peek), res);
    }

    void find_fill(const std::vector<Item>& keys, bool peek, int form, Result& res) override
    {
        using opt_t = std::conditional_t<kIsSet, bool, std::optional<V>>;
        // forms 5 / 6: the caller's container already holds values from an earlier round; every slot
        // must be overwritten (absent keys reset to nullopt / false)
        auto stale = [&]() -> opt_t {
            if constexpr (kIsSet)
                return true;
            else
                return opt_t{VC::enc(kStaleVal)};
        };
        if (form == 6)
        {
            std::map<K, opt_t> r;
            for (auto& it : keys)
                r.emplace(KC::enc(it.key), stale());
            call_find_fill(r, peek);
            encode_pairs(r, res);
            return;
        }
        if (form == 5)
        {
            std::vector<std::pair<K, opt_t>> r;
            for (auto& it : keys)
                r.emplace_back(KC::enc(it.key), stale());
            call_find_fill(r, peek);
            encode_pairs(r, res);
            return;
        }
        if (form == 2)
        {
            std::map<K, opt_t> r;
            for (auto& it : keys)
                r.emplace(KC::enc(it.key), opt_t{});
            call_find_fill(r, peek);
            encode_pairs(r, res);
            return;
        }
        std::vector<std::pair<K, opt_t>> r;
        for (auto& it : keys)
            r.emplace_back(KC::enc(it.key), opt_t{});
        if constexpr (kIsFifo)
        {
            if (form == 3)
            {
                in_call([&] { c->find_range_fill(r.begin(), r.end()); return 0; });
                encode_pairs(r, res);
                return;
            }
        }
        call_find_fill(r, peek);
        encode_pairs(r, res);
    }

    Found find_uc(int key, bool peek) override
    {
        (void)key;
        (void)peek;
        Found f;
        if constexpr (kBoolPeek)
        {
            auto k = KC::enc(key);
            auto o = (!peek && key % 2 == 0) ? in_call([&] { return c->find_with_use_count(k); })
                                             : in_call([&] { return c->find_with_use_count(k, peek); });
            if (o.has_value())
            {
                f.hit   = true;
                f.val   = VC::dec(o->first);
                f.count = o->second;
            }
        }
        return f;
    }

    size_t age() override
    {
        if constexpr (TAG == Cont::lfuda)
            return in_call([&] { return c->dynamically_age(); });
        else
            return 0;
    }
    size_t clean() override
    {
        if constexpr (TAG == Cont::tlru || TAG == Cont::utlru || TAG == Cont::ut_map || TAG == Cont::ut_set)
            return in_call([&] { return c->clean_expired_values(); });
        else
            return 0;
    }
    void clear() override
    {
        if constexpr (TAG == Cont::utlru || TAG == Cont::ut_map)
            in_call([&] { c->clear(); return 0; });
    }
    void update_ttl(int64_t v) override
    {
        (void)v;
        if constexpr (TAG == Cont::utlru)
            in_call([&] { c->update_ttl(ms{v}); return 0; });
    }
    size_t size() override { return in_call([&] { return c->size(); }); }
    bool   empty() override { return in_call([&] { return c->empty(); }); }
    size_t capacity() override
    {
        if constexpr (TAG == Cont::ut_map || TAG == Cont::ut_set)
            return 0;
        else
            return in_call([&] { return c->capacity(); });
    }
    const void* obj_addr() const override { return c.get(); }
    size_t      obj_size() const override { return sizeof(C); }
};

// Instantiates the supported (key, value, thread_safe) combinations of one
// container template.  MAKE(K, V, TS) must yield the concrete container type.
#define SIM_BOX_FACTORY(FN, TAG, TYPE_OF)                                                             \
    std::unique_ptr<Box> FN(const Config& cfg)                                                        \
    {                                                                                                 \
        using cappuccino::thread_safe;                                                                \
        if (cfg.kt == KeyT::i && cfg.vt == ValT::i)                                                   \
        {                                                                                             \
            if (cfg.ts)                                                                               \
                return std::make_unique<BoxT<TAG, TYPE_OF(uint64_t, uint64_t, thread_safe::yes), uint64_t, uint64_t>>(cfg); \
            return std::make_unique<BoxT<TAG, TYPE_OF(uint64_t, uint64_t, thread_safe::no), uint64_t, uint64_t>>(cfg);      \
        }                                                                                             \
        if (cfg.kt == KeyT::s && cfg.vt == ValT::s)                                                   \
        {                                                                                             \
            if (cfg.ts)                                                                               \
                return std::make_unique<BoxT<TAG, TYPE_OF(std::string, std::string, thread_safe::yes), std::string, std::string>>(cfg); \
            return std::make_unique<BoxT<TAG, TYPE_OF(std::string, std::string, thread_safe::no), std::string, std::string>>(cfg);      \
        }                                                                                             \
        SIM_BOX_TRACKED(TAG, TYPE_OF)                                                                 \
        return nullptr;                                                                               \
    }

#ifdef SIM_NO_TRACKED
#define SIM_BOX_TRACKED(TAG, TYPE_OF)
#else
#define SIM_BOX_TRACKED(TAG, TYPE_OF)                                                                 \
    if (cfg.kt == KeyT::c && cfg.vt == ValT::t)                                                       \
    {                                                                                                 \
        if (cfg.ts)                                                                                   \
            return std::make_unique<BoxT<TAG, TYPE_OF(CKey, Tracked, thread_safe::yes), CKey, Tracked>>(cfg); \
        return std::make_unique<BoxT<TAG, TYPE_OF(CKey, Tracked, thread_safe::no), CKey, Tracked>>(cfg);      \
    }
#endif

} // namespace sim
