#include "box_impl.hpp"
#include "cappuccino/tlru_cache.hpp"
namespace sim
{
#define T_OF(K, V, TS) cappuccino::tlru_cache<K, V, TS>
SIM_BOX_FACTORY(make_tlru, Cont::tlru, T_OF)
} // namespace sim
