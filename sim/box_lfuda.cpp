#include "box_impl.hpp"
#include "cappuccino/lfuda_cache.hpp"
namespace sim
{
#define T_OF(K, V, TS) cappuccino::lfuda_cache<K, V, TS>
SIM_BOX_FACTORY(make_lfuda, Cont::lfuda, T_OF)
} // namespace sim
