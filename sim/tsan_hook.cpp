// ThreadSanitizer report hook (TSan build only): turns every data-race report
// into the pair of outermost cappuccino:: frames of the two accesses.
// Compiled without instrumentation; plain C arrays only.
#include <cstddef>
#include <cstdio>
#include <cstring>

extern "C"
{
    int  __tsan_get_report_data(void* report, const char** description, int* count, int* stack_count, int* mop_count,
                                int* loc_count, int* mutex_count, int* thread_count, int* unique_tid_count, void** sleep_trace,
                                unsigned long trace_size);
    int  __tsan_get_report_thread(void* report, unsigned long idx, int* tid, unsigned long long* os_id, int* running,
                                  const char** name, int* parent_tid, void** trace, unsigned long trace_size);
    int  __tsan_get_report_mop(void* report, unsigned long idx, int* tid, void** addr, int* size, int* write, int* atomic,
                               void** trace, unsigned long trace_size);
    void __sanitizer_symbolize_pc(void* pc, const char* fmt, char* out_buf, size_t out_buf_size);
}

namespace sim
{
struct RaceRec
{
    char a[200];
    char b[200];
    int  lib_a, lib_b;
    long os_a, os_b; // OS thread ids of the two accesses (0 = unknown)
};
namespace
{
constexpr size_t kMax = 256;
RaceRec          g_rec[kMax];
size_t           g_n;

// "cappuccino::lru_cache<unsigned long, ...>::insert(unsigned long const&, ...)" -> "lru_cache::insert"
bool public_name(const char* fn, char* out, size_t outsz)
{
    // strip template arguments, cut at the argument list, keep the last token (drops a return type)
    char   buf[600];
    size_t n     = 0;
    int    depth = 0;
    for (const char* p = fn; *p && n + 1 < sizeof buf; ++p)
    {
        if (*p == '<')
            ++depth;
        else if (*p == '>')
            --depth;
        else if (depth == 0)
        {
            if (*p == '(')
                break;
            buf[n++] = *p;
        }
    }
    buf[n]        = 0;
    const char* t = strrchr(buf, ' ');
    t             = t ? t + 1 : buf;
    if (strncmp(t, "cappuccino::", 12) != 0)
        return false;
    t += 12;
    if (!strstr(t, "::"))
        return false;
    if (!(strstr(t, "_cache::") || strstr(t, "ut_map::") || strstr(t, "ut_set::")))
        return false;
    snprintf(out, outsz, "%s", t);
    return true;
}

// outermost library frame of one access
int describe(void** trace, int n, char* out, size_t outsz)
{
    char fn[2400];
    int  found = 0;
    snprintf(out, outsz, "?");
    for (int i = 0; i < n && trace[i]; ++i)
    {
        memset(fn, 0, sizeof fn);
        // the trace holds return addresses; step back into the call instruction.
        // Inlined frames come back as consecutive NUL-separated strings, innermost first.
        __sanitizer_symbolize_pc((char*)trace[i] - 1, "%f", fn, sizeof fn - 2);
        for (const char* q = fn; *q && q < fn + sizeof fn - 2; q += strlen(q) + 1)
        {
            char nm[200];
            if (public_name(q, nm, sizeof nm))
            {
                snprintf(out, outsz, "%s", nm); // keep overwriting: the last one is the outermost
                found = 1;
            }
        }
    }
    return found;
}
} // namespace

size_t         tsan_report_count() { return g_n; }
const RaceRec* tsan_reports() { return g_rec; }
void           tsan_reports_clear() { g_n = 0; }
} // namespace sim

extern "C" void __tsan_on_report(void* report)
{
    using namespace sim;
    const char* desc = nullptr;
    int         count = 0, stacks = 0, mops = 0, locs = 0, mutexes = 0, threads = 0, utids = 0;
    void*       sleep_trace[1];
    __tsan_get_report_data(report, &desc, &count, &stacks, &mops, &locs, &mutexes, &threads, &utids, sleep_trace, 1);
    if (!desc || strcmp(desc, "data-race") != 0)
        return; // e.g. thread leak on the deadlock path
    if (g_n >= kMax || mops < 2)
        return;
    RaceRec& r = g_rec[g_n];
    void*    trace[64];
    int      tid_a = -1, tid_b = -1, size, write, atomic;
    void*    addr;
    memset(trace, 0, sizeof trace);
    __tsan_get_report_mop(report, 0, &tid_a, &addr, &size, &write, &atomic, trace, 64);
    r.lib_a = describe(trace, 64, r.a, sizeof r.a);
    memset(trace, 0, sizeof trace);
    __tsan_get_report_mop(report, 1, &tid_b, &addr, &size, &write, &atomic, trace, 64);
    r.lib_b = describe(trace, 64, r.b, sizeof r.b);
    r.os_a = r.os_b = 0;
    for (int i = 0; i < threads; ++i)
    {
        int                tid = -1, running = 0, parent = 0;
        unsigned long long os = 0;
        const char*        name = nullptr;
        void*              tt[1];
        __tsan_get_report_thread(report, (unsigned long)i, &tid, &os, &running, &name, &parent, tt, 1);
        if (tid == tid_a)
            r.os_a = (long)os;
        if (tid == tid_b)
            r.os_b = (long)os;
    }
    ++g_n;
}

extern "C" __attribute__((used)) const char* __tsan_default_options()
{
    return "halt_on_error=0:exitcode=0:report_thread_leaks=0:report_signal_unsafe=0:suppress_equal_stacks=0:"
           "suppress_equal_addresses=0:history_size=7:log_path=/dev/null";
}
