#include "box_impl.hpp"
#include "cappuccino/mru_cache.hpp"
namespace sim
{
#define T_OF(K, V, TS) cappuccino::mru_cache<K, V, TS>
SIM_BOX_FACTORY(make_mru, Cont::mru, T_OF)
} // namespace sim
