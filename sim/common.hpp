// Shared vocabulary of the simulator: PRNG, container configuration, abstract
// operations, abstract results, plans.  Everything here is container-agnostic.
#pragma once
#include "json.hpp"

#include <cstdint>
#include <map>
#include <set>
#include <string>
#include <vector>

namespace sim
{
// ---------------------------------------------------------------- PRNG ----
inline uint64_t splitmix64(uint64_t& x)
{
    uint64_t z = (x += 0x9e3779b97f4a7c15ULL);
    z          = (z ^ (z >> 30)) * 0xbf58476d1ce4e5b9ULL;
    z          = (z ^ (z >> 27)) * 0x94d049bb133111ebULL;
    return z ^ (z >> 31);
}
inline uint64_t mix3(uint64_t a, uint64_t b, uint64_t c)
{
    uint64_t x = a * 0x9e3779b97f4a7c15ULL + 0x1234567;
    splitmix64(x);
    x ^= b * 0xc2b2ae3d27d4eb4fULL;
    splitmix64(x);
    x ^= c * 0x165667b19e3779f9ULL;
    return splitmix64(x);
}
struct Rng
{
    uint64_t s[4];
    explicit Rng(uint64_t seed = 1)
    {
        uint64_t x = seed;
        for (auto& v : s)
            v = splitmix64(x);
    }
    static uint64_t rotl(uint64_t x, int k) { return (x << k) | (x >> (64 - k)); }
    uint64_t        next()
    {
        uint64_t r = rotl(s[1] * 5, 7) * 9, t = s[1] << 17;
        s[2] ^= s[0];
        s[3] ^= s[1];
        s[1] ^= s[2];
        s[0] ^= s[3];
        s[2] ^= t;
        s[3] = rotl(s[3], 45);
        return r;
    }
    // uniform in [0,n)  (n>0); modulo bias irrelevant for our purposes
    uint64_t below(uint64_t n) { return n ? next() % n : 0; }
    int64_t  range(int64_t lo, int64_t hi) { return lo + (int64_t)below((uint64_t)(hi - lo + 1)); }
    bool     chance(unsigned num, unsigned den) { return below(den) < num; }
    template<typename T>
    const T& pick(const std::vector<T>& v)
    {
        return v[below(v.size())];
    }
};

inline uint64_t fnv1a(const void* data, size_t n, uint64_t h = 0xcbf29ce484222325ULL)
{
    auto* p = (const unsigned char*)data;
    for (size_t i = 0; i < n; ++i)
    {
        h ^= p[i];
        h *= 0x100000001b3ULL;
    }
    return h;
}
inline uint64_t fnv1a(const std::string& s, uint64_t h = 0xcbf29ce484222325ULL) { return fnv1a(s.data(), s.size(), h); }

// ------------------------------------------------------------ containers ----
enum class Cont
{
    lru,
    mru,
    fifo,
    lfu,
    lfuda,
    rr,
    tlru,
    utlru,
    ut_map,
    ut_set,
    COUNT
};
inline const char* cont_name(Cont c)
{
    static const char* n[] = {"lru", "mru", "fifo", "lfu", "lfuda", "rr", "tlru", "utlru", "ut_map", "ut_set"};
    return n[(int)c];
}
inline bool cont_from(const std::string& s, Cont& c)
{
    for (int i = 0; i < (int)Cont::COUNT; ++i)
        if (s == cont_name((Cont)i))
        {
            c = (Cont)i;
            return true;
        }
    return false;
}

enum class Policy
{
    lru,
    mru,
    fifo,
    lfu,
    lfuda,
    rr,
    none
};
enum class TtlMode
{
    none,
    per_entry,
    uniform
};

struct Traits
{
    Policy  policy;
    TtlMode ttl;
    bool    has_capacity; // fixed capacity cache (false: ut_map/ut_set)
    bool    has_peek;
    bool    has_uc;    // find_with_use_count
    bool    has_age;   // dynamically_age
    bool    has_clean; // clean_expired_values
    bool    has_clear;
    bool    has_update_ttl;
    bool    has_values; // false: ut_set
    bool    purge_every_call; // ut_map / ut_set
    bool    iter_forms;       // fifo iterator-pair overloads
};
inline Traits traits_of(Cont c)
{
    switch (c)
    {
        case Cont::lru:
            return {Policy::lru, TtlMode::none, true, true, false, false, false, false, false, true, false, false};
        case Cont::mru:
            return {Policy::mru, TtlMode::none, true, true, false, false, false, false, false, true, false, false};
        case Cont::fifo:
            return {Policy::fifo, TtlMode::none, true, false, false, false, false, false, false, true, false, true};
        case Cont::lfu:
            return {Policy::lfu, TtlMode::none, true, true, true, false, false, false, false, true, false, false};
        case Cont::lfuda:
            return {Policy::lfuda, TtlMode::none, true, true, true, true, false, false, false, true, false, false};
        case Cont::rr:
            return {Policy::rr, TtlMode::none, true, false, false, false, false, false, false, true, false, false};
        case Cont::tlru:
            return {Policy::lru, TtlMode::per_entry, true, true, false, false, true, false, false, true, false, false};
        case Cont::utlru:
            return {Policy::lru, TtlMode::uniform, true, true, false, false, true, true, true, true, false, false};
        case Cont::ut_map:
            return {Policy::none, TtlMode::uniform, false, false, false, false, true, true, false, true, true, false};
        case Cont::ut_set:
            return {Policy::none, TtlMode::uniform, false, false, false, false, true, false, false, false, true, false};
        default:
            break;
    }
    return {};
}

enum class KeyT
{
    i, // uint64_t, identity hash
    s, // std::string (heap allocated, zero padded so that order == id order)
    c  // struct with a hash that maps everything to two buckets
};
enum class ValT
{
    i, // uint64_t
    s, // std::string (heap allocated)
    t  // Tracked: heap owning, instance counting
};
inline const char* keyt_name(KeyT k) { return k == KeyT::i ? "int" : k == KeyT::s ? "string" : "collide"; }
inline const char* valt_name(ValT v) { return v == ValT::i ? "int" : v == ValT::s ? "string" : "tracked"; }

struct Config
{
    Cont     cont{Cont::lru};
    bool     ts{false}; // thread_safe::yes ?
    KeyT     kt{KeyT::i};
    ValT     vt{ValT::i};
    uint32_t capacity{4};
    double   mlf{1.0};
    int64_t  ttl_ms{100}; // utlru / ut_map / ut_set constructor TTL
    int64_t  tick_ms{1000};
    double   ratio{0.5};
    uint32_t universe{6};
    bool     fresh_thread{false}; // world seq: every call into the container runs on a newly created client thread

    js::Value to_json() const
    {
        auto v = js::Value::object();
        v.set("cont", cont_name(cont)).set("ts", ts).set("kt", (int)kt).set("vt", (int)vt);
        v.set("capacity", capacity).set("mlf", mlf).set("ttl_ms", ttl_ms).set("tick_ms", tick_ms);
        v.set("ratio", ratio).set("universe", universe);
        if (fresh_thread)
            v.set("fresh_thread", true);
        return v;
    }
    bool from_json(const js::Value& v)
    {
        if (!cont_from(v.gets("cont"), cont))
            return false;
        ts       = v.getb("ts");
        kt       = (KeyT)v.geti("kt");
        vt       = (ValT)v.geti("vt");
        capacity = (uint32_t)v.geti("capacity", 4);
        mlf      = v.getd("mlf", 1.0);
        ttl_ms   = v.geti("ttl_ms", 100);
        tick_ms  = v.geti("tick_ms", 1000);
        ratio    = v.getd("ratio", 0.5);
        universe = (uint32_t)v.geti("universe", 6);
        fresh_thread = v.getb("fresh_thread");
        if (capacity < 1)
            capacity = 1;
        if (universe < 1)
            universe = 1;
        if (tick_ms < 1)
            tick_ms = 1;
        if (ttl_ms < 0)
            ttl_ms = 0;
        return true;
    }
};

// ------------------------------------------------------------ operations ----
enum class OpKind
{
    insert,
    insert_range,
    erase,
    erase_range,
    find,
    find_range,
    find_fill,
    find_uc,
    age,
    clean,
    clear,
    update_ttl,
    size,
    empty,
    capacity,
    COUNT
};
inline const char* op_name(OpKind k)
{
    static const char* n[] = {"insert", "insert_range", "erase", "erase_range", "find",  "find_range", "find_fill", "find_uc",
                              "age",    "clean",        "clear", "update_ttl",  "size",  "empty",      "capacity"};
    return n[(int)k];
}
inline bool op_from(const std::string& s, OpKind& k)
{
    for (int i = 0; i < (int)OpKind::COUNT; ++i)
        if (s == op_name((OpKind)i))
        {
            k = (OpKind)i;
            return true;
        }
    return false;
}

// allow values as in cappuccino::allow
constexpr int ALLOW_INSERT = 1, ALLOW_UPDATE = 2, ALLOW_BOTH = 3;

// range forms
//   insert_range: 0 vector<pair>, 1 list<pair>, 2 map (sorted, unique), 3 fifo iterator pair
//   erase_range : 0 vector, 1 set (sorted, unique), 3 fifo iterator pair
//   find_range  : 0 vector, 1 set (sorted, unique), 3 fifo iterator pair with distance, 4 fifo iterator pair w/o distance
//   find_fill   : 0 vector<pair<k,opt>>, 2 map<k,opt> (sorted, unique), 3 fifo iterator pair,
//                 5 vector / 6 map whose slots already hold stale values from an earlier round
inline bool form_sorted(OpKind k, int form)
{
    if (k == OpKind::find_fill)
        return form == 2 || form == 6;
    if (k == OpKind::insert_range)
        return form == 2;
    if (k == OpKind::erase_range || k == OpKind::find_range)
        return form == 1;
    return false;
}

struct Item
{
    int      key{0};
    uint32_t val{0};
    int64_t  ttl_ms{0};
};

struct Op
{
    OpKind            kind{OpKind::find};
    int               key{0};
    uint32_t          val{0};
    int               allow{ALLOW_BOTH};
    int64_t           ttl_ms{0}; // tlru insert ttl, update_ttl argument
    bool              peek{false};
    int               form{0};
    std::vector<Item> items; // range payload (keys only for erase/find ranges)

    bool is_range() const
    {
        return kind == OpKind::insert_range || kind == OpKind::erase_range || kind == OpKind::find_range ||
               kind == OpKind::find_fill;
    }

    js::Value to_json() const
    {
        auto v = js::Value::object();
        v.set("op", op_name(kind));
        switch (kind)
        {
            case OpKind::insert:
                v.set("key", key).set("val", val).set("allow", allow).set("ttl_ms", ttl_ms);
                break;
            case OpKind::erase:
                v.set("key", key);
                break;
            case OpKind::find:
            case OpKind::find_uc:
                v.set("key", key).set("peek", peek);
                break;
            case OpKind::update_ttl:
                v.set("ttl_ms", ttl_ms);
                break;
            case OpKind::insert_range:
            {
                v.set("allow", allow).set("form", form);
                auto arr = js::Value::array();
                for (auto& it : items)
                {
                    auto e = js::Value::array();
                    e.push(js::Value::integer(it.key)).push(js::Value::integer(it.val)).push(js::Value::integer(it.ttl_ms));
                    arr.push(std::move(e));
                }
                v.set("items", std::move(arr));
                break;
            }
            case OpKind::erase_range:
            case OpKind::find_range:
            case OpKind::find_fill:
            {
                if (kind != OpKind::erase_range)
                    v.set("peek", peek);
                v.set("form", form);
                auto arr = js::Value::array();
                for (auto& it : items)
                    arr.push(js::Value::integer(it.key));
                v.set("keys", std::move(arr));
                break;
            }
            default:
                break;
        }
        return v;
    }
    bool from_json(const js::Value& v)
    {
        if (!op_from(v.gets("op"), kind))
            return false;
        key    = (int)v.geti("key");
        val    = (uint32_t)v.geti("val");
        allow  = (int)v.geti("allow", ALLOW_BOTH);
        if (allow < 1 || allow > 3)
            allow = ALLOW_BOTH;
        ttl_ms = v.geti("ttl_ms");
        if (ttl_ms < 0)
            ttl_ms = 0;
        peek   = v.getb("peek");
        form   = (int)v.geti("form");
        items.clear();
        if (auto* arr = v.get("items"))
            for (auto& e : arr->a)
            {
                Item it;
                if (e.a.size() >= 1)
                    it.key = (int)e.a[0].i;
                if (e.a.size() >= 2)
                    it.val = (uint32_t)e.a[1].i;
                if (e.a.size() >= 3)
                    it.ttl_ms = e.a[2].i < 0 ? 0 : e.a[2].i;
                items.push_back(it);
            }
        if (auto* arr = v.get("keys"))
            for (auto& e : arr->a)
            {
                Item it;
                it.key = (int)e.i;
                items.push_back(it);
            }
        return true;
    }
};

// Abstract result: a flat vector of integers.
//   bool / count / size ops : {x}
//   find                    : {hit, val}
//   find_uc                 : {hit, val, count}
//   find_range / find_fill  : {key, hit, val, key, hit, val, ...}
//   void ops                : {}
using Result = std::vector<int64_t>;

inline std::string result_str(const Result& r)
{
    std::string s = "[";
    for (size_t i = 0; i < r.size(); ++i)
    {
        if (i)
            s += ",";
        s += std::to_string(r[i]);
    }
    return s + "]";
}

// ------------------------------------------------------------ violations ----
struct Violation
{
    std::set<std::string> props;    // properties this violates (usually one)
    std::string           check;    // stable check id, e.g. "lookup.wrong_value"
    std::string           detail;   // human readable
    int                   step{-1}; // plan step (seq) or op id (conc)
    bool                  any() const { return !check.empty(); }
    std::string           props_str() const
    {
        std::string s;
        for (auto& p : props)
        {
            if (!s.empty())
                s += ",";
            s += p;
        }
        return s;
    }
};

} // namespace sim
