#include "box_impl.hpp"
#include "cappuccino/lru_cache.hpp"
namespace sim
{
#define T_OF(K, V, TS) cappuccino::lru_cache<K, V, TS>
SIM_BOX_FACTORY(make_lru, Cont::lru, T_OF)
} // namespace sim
