// Minimal JSON value (parse + dump) used for plans, replay files and result lines.
// Deterministic: objects keep insertion order; no hashing, no locale.
#pragma once
#include <cstdint>
#include <cstdio>
#include <cstdlib>
#include <cstring>
#include <string>
#include <utility>
#include <vector>

namespace js
{
struct Value
{
    enum Kind
    {
        Null,
        Bool,
        Int,
        Dbl,
        Str,
        Arr,
        Obj
    } kind{Null};
    bool                                       b{false};
    int64_t                                    i{0};
    double                                     d{0};
    std::string                                s;
    std::vector<Value>                         a;
    std::vector<std::pair<std::string, Value>> o;

    Value() = default;
    static Value boolean(bool v)
    {
        Value x;
        x.kind = Bool;
        x.b    = v;
        return x;
    }
    static Value integer(int64_t v)
    {
        Value x;
        x.kind = Int;
        x.i    = v;
        return x;
    }
    static Value number(double v)
    {
        Value x;
        x.kind = Dbl;
        x.d    = v;
        return x;
    }
    static Value str(const std::string& v)
    {
        Value x;
        x.kind = Str;
        x.s    = v;
        return x;
    }
    static Value array()
    {
        Value x;
        x.kind = Arr;
        return x;
    }
    static Value object()
    {
        Value x;
        x.kind = Obj;
        return x;
    }

    Value& set(const std::string& k, Value v)
    {
        for (auto& kv : o)
            if (kv.first == k)
            {
                kv.second = std::move(v);
                return *this;
            }
        o.emplace_back(k, std::move(v));
        return *this;
    }
    Value& set(const std::string& k, int64_t v) { return set(k, integer(v)); }
    Value& set(const std::string& k, int v) { return set(k, integer(v)); }
    Value& set(const std::string& k, uint64_t v) { return set(k, integer((int64_t)v)); }
    Value& set(const std::string& k, unsigned v) { return set(k, integer((int64_t)v)); }
    Value& set(const std::string& k, bool v) { return set(k, boolean(v)); }
    Value& set(const std::string& k, double v) { return set(k, number(v)); }
    Value& set(const std::string& k, const char* v) { return set(k, str(v)); }
    Value& set(const std::string& k, const std::string& v) { return set(k, str(v)); }
    Value& push(Value v)
    {
        a.push_back(std::move(v));
        return *this;
    }
    const Value* get(const std::string& k) const
    {
        for (auto& kv : o)
            if (kv.first == k)
                return &kv.second;
        return nullptr;
    }
    bool        has(const std::string& k) const { return get(k) != nullptr; }
    int64_t     geti(const std::string& k, int64_t def = 0) const
    {
        auto* v = get(k);
        if (!v)
            return def;
        if (v->kind == Int)
            return v->i;
        if (v->kind == Dbl)
            return (int64_t)v->d;
        if (v->kind == Bool)
            return v->b;
        return def;
    }
    double getd(const std::string& k, double def = 0) const
    {
        auto* v = get(k);
        if (!v)
            return def;
        if (v->kind == Int)
            return (double)v->i;
        if (v->kind == Dbl)
            return v->d;
        return def;
    }
    bool getb(const std::string& k, bool def = false) const
    {
        auto* v = get(k);
        if (!v)
            return def;
        if (v->kind == Bool)
            return v->b;
        if (v->kind == Int)
            return v->i != 0;
        return def;
    }
    std::string gets(const std::string& k, const std::string& def = "") const
    {
        auto* v = get(k);
        if (!v || v->kind != Str)
            return def;
        return v->s;
    }

    static void esc(const std::string& in, std::string& out)
    {
        out.push_back('"');
        for (unsigned char c : in)
        {
            switch (c)
            {
                case '"':
                    out += "\\\"";
                    break;
                case '\\':
                    out += "\\\\";
                    break;
                case '\n':
                    out += "\\n";
                    break;
                case '\t':
                    out += "\\t";
                    break;
                case '\r':
                    out += "\\r";
                    break;
                default:
                    if (c < 0x20)
                    {
                        char buf[8];
                        snprintf(buf, sizeof buf, "\\u%04x", c);
                        out += buf;
                    }
                    else
                        out.push_back((char)c);
            }
        }
        out.push_back('"');
    }
    void dump(std::string& out) const
    {
        char buf[64];
        switch (kind)
        {
            case Null:
                out += "null";
                break;
            case Bool:
                out += b ? "true" : "false";
                break;
            case Int:
                snprintf(buf, sizeof buf, "%lld", (long long)i);
                out += buf;
                break;
            case Dbl:
                snprintf(buf, sizeof buf, "%.9g", d);
                out += buf;
                break;
            case Str:
                esc(s, out);
                break;
            case Arr:
                out.push_back('[');
                for (size_t k = 0; k < a.size(); ++k)
                {
                    if (k)
                        out.push_back(',');
                    a[k].dump(out);
                }
                out.push_back(']');
                break;
            case Obj:
                out.push_back('{');
                for (size_t k = 0; k < o.size(); ++k)
                {
                    if (k)
                        out.push_back(',');
                    esc(o[k].first, out);
                    out.push_back(':');
                    o[k].second.dump(out);
                }
                out.push_back('}');
                break;
        }
    }
    std::string dump() const
    {
        std::string out;
        dump(out);
        return out;
    }
};

struct Parser
{
    const char* p;
    const char* e;
    bool        ok{true};
    explicit Parser(const std::string& s) : p(s.data()), e(s.data() + s.size()) {}
    void ws()
    {
        while (p < e && (*p == ' ' || *p == '\n' || *p == '\t' || *p == '\r'))
            ++p;
    }
    Value parse()
    {
        ws();
        if (p >= e)
        {
            ok = false;
            return {};
        }
        char c = *p;
        if (c == '{')
        {
            ++p;
            Value v = Value::object();
            ws();
            if (p < e && *p == '}')
            {
                ++p;
                return v;
            }
            while (ok)
            {
                ws();
                Value k = parse();
                if (k.kind != Value::Str)
                {
                    ok = false;
                    break;
                }
                ws();
                if (p >= e || *p != ':')
                {
                    ok = false;
                    break;
                }
                ++p;
                Value x = parse();
                v.o.emplace_back(k.s, std::move(x));
                ws();
                if (p < e && *p == ',')
                {
                    ++p;
                    continue;
                }
                if (p < e && *p == '}')
                {
                    ++p;
                    break;
                }
                ok = false;
            }
            return v;
        }
        if (c == '[')
        {
            ++p;
            Value v = Value::array();
            ws();
            if (p < e && *p == ']')
            {
                ++p;
                return v;
            }
            while (ok)
            {
                v.a.push_back(parse());
                ws();
                if (p < e && *p == ',')
                {
                    ++p;
                    continue;
                }
                if (p < e && *p == ']')
                {
                    ++p;
                    break;
                }
                ok = false;
            }
            return v;
        }
        if (c == '"')
        {
            ++p;
            Value v;
            v.kind = Value::Str;
            while (p < e && *p != '"')
            {
                if (*p == '\\' && p + 1 < e)
                {
                    ++p;
                    switch (*p)
                    {
                        case 'n':
                            v.s.push_back('\n');
                            break;
                        case 't':
                            v.s.push_back('\t');
                            break;
                        case 'r':
                            v.s.push_back('\r');
                            break;
                        case 'u':
                        {
                            unsigned x = 0;
                            if (p + 4 < e)
                            {
                                char tmp[5] = {p[1], p[2], p[3], p[4], 0};
                                x           = (unsigned)strtoul(tmp, nullptr, 16);
                                p += 4;
                            }
                            v.s.push_back((char)x);
                            break;
                        }
                        default:
                            v.s.push_back(*p);
                    }
                    ++p;
                }
                else
                    v.s.push_back(*p++);
            }
            if (p < e)
                ++p;
            else
                ok = false;
            return v;
        }
        if (!strncmp(p, "true", 4))
        {
            p += 4;
            return Value::boolean(true);
        }
        if (!strncmp(p, "false", 5))
        {
            p += 5;
            return Value::boolean(false);
        }
        if (!strncmp(p, "null", 4))
        {
            p += 4;
            return {};
        }
        // number
        const char* q     = p;
        bool        isdbl = false;
        if (q < e && (*q == '-' || *q == '+'))
            ++q;
        while (q < e && ((*q >= '0' && *q <= '9') || *q == '.' || *q == 'e' || *q == 'E' || *q == '-' || *q == '+'))
        {
            if (*q == '.' || *q == 'e' || *q == 'E')
                isdbl = true;
            ++q;
        }
        if (q == p)
        {
            ok = false;
            return {};
        }
        std::string num(p, q);
        p = q;
        if (isdbl)
            return Value::number(strtod(num.c_str(), nullptr));
        return Value::integer(strtoll(num.c_str(), nullptr, 10));
    }
};

inline bool parse(const std::string& text, Value& out)
{
    Parser ps(text);
    out = ps.parse();
    return ps.ok;
}

inline bool read_file(const std::string& path, std::string& out)
{
    FILE* f = fopen(path.c_str(), "rb");
    if (!f)
        return false;
    char   buf[65536];
    size_t n;
    out.clear();
    while ((n = fread(buf, 1, sizeof buf, f)) > 0)
        out.append(buf, n);
    fclose(f);
    return true;
}

inline bool write_file(const std::string& path, const std::string& data)
{
    FILE* f = fopen(path.c_str(), "wb");
    if (!f)
        return false;
    fwrite(data.data(), 1, data.size(), f);
    fclose(f);
    return true;
}
} // namespace js
