#include "box_impl.hpp"
#include "cappuccino/fifo_cache.hpp"
namespace sim
{
#define T_OF(K, V, TS) cappuccino::fifo_cache<K, V, TS>
SIM_BOX_FACTORY(make_fifo, Cont::fifo, T_OF)
} // namespace sim
