// Worker binary of the simulator.
//
//   sim run     --world seq|conc|pairs --prop Cxx --seed S --from A --to B [--thorough] [--max-viol N]
//   sim genplan --world seq|conc --prop Cxx --seed S --index I --out FILE
//   sim replay  --plan FILE [--trace]
//   sim shrink  --plan FILE --check ID --out FILE [--budget N]
//
// `run` prints one line per event on stdout, flushed:
//   START <i>                       before run i is executed (so a crash can be attributed)
//   VIOL <json>                     a violation with its full plan
//   AGG <json>                      aggregated statistics at the end
#include "conc.hpp"
#include "seq.hpp"

#include <algorithm>
#include <csignal>
#include <cstdio>
#include <cstdlib>
#include <cstring>
#include <ctime>
#include <string>
#include <fcntl.h>
#include <sys/time.h>
#include <sys/wait.h>
#include <unistd.h>

using namespace sim;

// Sanitizer defaults: classify aborts by exit code, no leak checking at exit
// (value leaks are caught by the Tracked registry instead).
#ifndef SIM_TSAN
extern "C" __attribute__((used)) const char* __asan_default_options()
{
    return "exitcode=77:detect_leaks=0:abort_on_error=0:allocator_may_return_null=1:detect_stack_use_after_return=0:"
           "quarantine_size_mb=8:thread_local_quarantine_size_kb=64:malloc_context_size=4";
}
extern "C" __attribute__((used)) const char* __ubsan_default_options() { return "halt_on_error=1:exitcode=77:print_stacktrace=1"; }
#endif

static double wall_now()
{
    timespec ts;
    clock_gettime(CLOCK_MONOTONIC, &ts);
    return (double)ts.tv_sec + (double)ts.tv_nsec * 1e-9;
}

static const char* arg(int argc, char** argv, const char* name, const char* def = nullptr)
{
    for (int i = 2; i + 1 < argc; ++i)
        if (!strcmp(argv[i], name))
            return argv[i + 1];
    return def;
}
static bool flag(int argc, char** argv, const char* name)
{
    for (int i = 2; i < argc; ++i)
        if (!strcmp(argv[i], name))
            return true;
    return false;
}

static js::Value viol_json(const Violation& v)
{
    auto o = js::Value::object();
    auto p = js::Value::array();
    for (auto& x : v.props)
        p.push(js::Value::str(x));
    o.set("props", std::move(p));
    o.set("check", v.check);
    o.set("detail", v.detail);
    o.set("step", v.step);
    return o;
}

struct Agg
{
    std::map<std::string, uint64_t> counters;
    std::map<std::string, uint64_t> nontrivial_runs;
    std::map<std::string, uint64_t> cut_short; // runs ended by a violation of property X
    uint64_t                        runs{0}, calls{0};
    int64_t                         sim_ns{0};
    std::set<uint64_t>              traces; // distinct interleavings (conc)
    std::vector<js::Value>          samples;
    void                            add(const RunStats& st)
    {
        ++runs;
        calls += st.calls;
        sim_ns = (int64_t)((uint64_t)sim_ns + (uint64_t)st.sim_ns);
        for (auto& kv : st.counters)
            counters[kv.first] += kv.second;
        for (auto& p : st.nontrivial)
            nontrivial_runs[p]++;
    }
    js::Value to_json() const
    {
        auto o = js::Value::object();
        o.set("runs", runs).set("calls", calls).set("sim_ns", sim_ns);
        auto c = js::Value::object();
        for (auto& kv : counters)
            c.set(kv.first, kv.second);
        o.set("counters", std::move(c));
        auto n = js::Value::object();
        for (auto& kv : nontrivial_runs)
            n.set(kv.first, kv.second);
        o.set("nontrivial_runs", std::move(n));
        auto cs = js::Value::object();
        for (auto& kv : cut_short)
            cs.set(kv.first, kv.second);
        o.set("cut_short", std::move(cs));
        o.set("distinct_traces", (uint64_t)traces.size());
        auto s = js::Value::array();
        for (auto& x : samples)
            s.push(x);
        o.set("samples", std::move(s));
        return o;
    }
};

// Per-run watchdog: a run that does not finish (a loop over a corrupted list, a client that never
// yields) must not stall the campaign.  Exit code 78 = "hang in the run that was started last".
static void on_alarm(int)
{
    static const char msg[] = "HANG\n";
    ssize_t           w     = write(1, msg, sizeof msg - 1);
    (void)w;
    _exit(78);
}
static void arm_watchdog(unsigned seconds)
{
    // Two limits: processor time (a run that spins; not fooled by a loaded machine, where a slow but
    // terminating run must not be called a hang) and, much later, wall time (a run that blocks for real).
#ifdef SIM_TSAN
    // ThreadSanitizer delivers asynchronous signals at its next interceptor only: a thread that spins inside an
    // uninstrumented library routine (a corrupted tree under std::multimap::insert) would never see the handler.
    // With the default disposition the kernel ends the process itself; the orchestrator reads "killed by
    // SIGPROF / SIGALRM" as a hang.
    signal(SIGALRM, SIG_DFL);
    signal(SIGPROF, SIG_DFL);
#else
    signal(SIGALRM, on_alarm);
    signal(SIGPROF, on_alarm);
#endif
    itimerval it{};
    it.it_value.tv_sec = seconds;
    setitimer(ITIMER_PROF, &it, nullptr);
    alarm(seconds * 4);
}
static void disarm_watchdog()
{
    itimerval it{};
    setitimer(ITIMER_PROF, &it, nullptr);
    alarm(0);
}

static uint64_t prop_salt(const std::string& world, const std::string& prop) { return fnv1a(world + "/" + prop); }

// ---------------------------------------------------------------------------
static int cmd_run(int argc, char** argv)
{
    std::string world    = arg(argc, argv, "--world", "seq");
    std::string prop     = arg(argc, argv, "--prop", "");
    uint64_t    seed     = strtoull(arg(argc, argv, "--seed", "1"), nullptr, 10);
    uint64_t    from     = strtoull(arg(argc, argv, "--from", "0"), nullptr, 10);
    uint64_t    to       = strtoull(arg(argc, argv, "--to", "1"), nullptr, 10);
    bool        thorough = flag(argc, argv, "--thorough");
    int         max_viol = atoi(arg(argc, argv, "--max-viol", "3"));
    double      deadline = atof(arg(argc, argv, "--wall", "0"));
    bool        hashes   = flag(argc, argv, "--hashes");
    double      t0       = wall_now();

    Agg         agg;
    int         nviol = 0;
    std::string nt_hashes; // plan hashes of runs non-trivial for `prop`
    std::string det_line;  // per run log hash (determinism audits)
    uint64_t    last = from;

    if (world == "seq")
    {
        // tell the orchestrator when a call that has its own crash class is in flight
        g_seq_call_hook = [](const char* tag) {
            static std::string cur;
            if (cur == tag)
                return;
            cur = tag;
            printf("CTX %s\n", tag[0] ? tag : "-");
            fflush(stdout);
        };
        GenProfile prof = profile_for(prop, thorough);
        for (uint64_t i = from; i < to; ++i)
        {
            if (deadline > 0 && wall_now() - t0 > deadline)
                break;
            last = i + 1;
            printf("START %llu\n", (unsigned long long)i);
            fflush(stdout);
            SeqPlan    plan = gen_seq_plan(mix3(seed, prop_salt(world, prop), i), prof);
            arm_watchdog(10);
            SeqOutcome out  = run_seq(plan, nullptr, prop);
            disarm_watchdog();
            agg.add(out.st);
            if (out.other.any())
                for (auto& p : out.other.props)
                    agg.cut_short[p]++;
            if (out.st.nontrivial.count(prop))
            {
                char buf[32];
                snprintf(buf, sizeof buf, "%016llx ", (unsigned long long)plan.hash());
                nt_hashes += buf;
            }
            if (hashes)
            {
                char buf[64];
                snprintf(buf, sizeof buf, "%llu:%016llx ", (unsigned long long)i, (unsigned long long)out.st.log_hash);
                det_line += buf;
            }
            if (agg.samples.size() < 2 && out.st.nontrivial.count(prop) && plan.steps.size() <= 12)
                agg.samples.push_back(plan.to_json());
            if (out.v.any())
            {
                auto o = js::Value::object();
                o.set("i", i);
                o.set("violation", viol_json(out.v));
                o.set("plan", plan.to_json());
                printf("VIOL %s\n", o.dump().c_str());
                fflush(stdout);
                if (out.v.props.count(prop) || prop.empty())
                    if (++nviol >= max_viol)
                        break;
            }
        }
    }
    else
    {
        if (world == "pairs" && to > conc_pairs_total())
            to = conc_pairs_total();
        for (uint64_t i = from; i < to; ++i)
        {
            if (deadline > 0 && wall_now() - t0 > deadline)
                break;
            last = i + 1;
            printf("START %llu\n", (unsigned long long)i);
            fflush(stdout);
            js::Value   plan = conc_genplan(world, prop, seed, i, thorough);
            arm_watchdog(20);
            ConcOutcome out  = conc_run_plan_json(plan, nullptr);
            if (world == "pairs" && !conc_is_tsan_build() && !out.v.any() && !out.must_exit)
            {
                // Systematic part: if code that should run under the container's lock ran without it
                // (never on a tree that locks consistently), park the first client at each such
                // execution in turn while the other runs its whole call.
                uint64_t n  = out.st.counters["probe.locked_code_running_unlocked"];
                uint64_t ns = out.st.counters["probe.basic_blocks_under_shared_hold"];
                // ... and likewise at each basic block executed under a shared hold of the lock
                // ... and, when some call completed without ever taking the container's lock (never on the pinned
                // tree, where every public method locks), at each basic block the other client executes inside its
                // own exclusive critical section: the lock-free method then runs in the middle of a half-applied
                // operation
                uint64_t nh = out.st.counters["probe.calls_that_never_took_the_lock"] ? out.st.counters["probe.basic_blocks_under_exclusive_hold"] : 0;
                const uint64_t c1 = std::min<uint64_t>(n, 120), c2 = std::min<uint64_t>(ns, 120), c3 = std::min<uint64_t>(nh, 400);
                for (uint64_t kk = 0; kk < c1 + c2 + c3 && !out.v.any() && !out.must_exit; ++kk)
                {
                    const bool     sh = kk >= c1 && kk < c1 + c2, ho = kk >= c1 + c2;
                    const uint64_t k  = ho ? kk - c1 - c2 : sh ? kk - c1 : kk;
                    js::Value p2 = plan;
                    auto      sc = *p2.get("sched");
                    auto      su = js::Value::array();
                    su.push(js::Value::integer((int64_t)k));
                    sc.set(ho ? "hold" : sh ? "shared" : "susp", std::move(su));
                    sc.set("mode", 0); // decision list: the forced switch at the preemption needs a non-explicit mode
                    sc.set("list", js::Value::array());
                    p2.set("sched", std::move(sc));
                    ConcOutcome o2 = conc_run_plan_json(p2, nullptr);
                    agg.add(o2.st);
                    agg.traces.insert(o2.trace_hash);
                    if (o2.v.any() || o2.must_exit)
                    {
                        out  = o2;
                        plan = p2;
                    }
                }
            }
            disarm_watchdog();
            agg.add(out.st);
            agg.traces.insert(out.trace_hash);
            if (out.st.nontrivial.count(prop))
            {
                char buf[32];
                snprintf(buf, sizeof buf, "%016llx ", (unsigned long long)out.plan_hash);
                nt_hashes += buf;
            }
            if (hashes)
            {
                char buf[64];
                snprintf(buf, sizeof buf, "%llu:%016llx ", (unsigned long long)i, (unsigned long long)out.st.log_hash);
                det_line += buf;
            }
            if (agg.samples.size() < 2 && out.st.nontrivial.count(prop))
                agg.samples.push_back(plan);
            if (out.v.any())
            {
                for (auto& p : out.v.props)
                    agg.cut_short[p]++;
                auto o = js::Value::object();
                o.set("i", i);
                o.set("violation", viol_json(out.v));
                o.set("plan", plan);
                printf("VIOL %s\n", o.dump().c_str());
                fflush(stdout);
                if (out.v.props.count(prop) || prop.empty())
                    ++nviol;
            }
            if (out.must_exit)
            {
                // clients are parked for good; report what we have and let the orchestrator restart us
                auto a = agg.to_json();
                a.set("from", from).set("done_to", last).set("wall_s", wall_now() - t0).set("nt_hashes", nt_hashes);
                if (hashes)
                    a.set("log_hashes", det_line);
                printf("AGG %s\n", a.dump().c_str());
                fflush(stdout);
                _exit(0);
            }
            if (nviol >= max_viol)
                break;
        }
    }
    auto a = agg.to_json();
    a.set("from", from).set("done_to", last).set("wall_s", wall_now() - t0);
    a.set("nt_hashes", nt_hashes);
    if (hashes)
        a.set("log_hashes", det_line);
    printf("AGG %s\n", a.dump().c_str());
    fflush(stdout);
    return 0;
}

static int cmd_genplan(int argc, char** argv)
{
    std::string world    = arg(argc, argv, "--world", "seq");
    std::string prop     = arg(argc, argv, "--prop", "");
    uint64_t    seed     = strtoull(arg(argc, argv, "--seed", "1"), nullptr, 10);
    uint64_t    idx      = strtoull(arg(argc, argv, "--index", "0"), nullptr, 10);
    bool        thorough = flag(argc, argv, "--thorough");
    const char* out      = arg(argc, argv, "--out", "/dev/stdout");
    js::Value   v;
    if (world == "seq")
        v = gen_seq_plan(mix3(seed, prop_salt(world, prop), idx), profile_for(prop, thorough)).to_json();
    else
        v = conc_genplan(world, prop, seed, idx, thorough);
    js::write_file(out, v.dump() + "\n");
    return 0;
}

// Runs a plan (any world) and returns its fingerprint.
struct Fingerprint
{
    Violation v;
    uint64_t  log_hash{0};
};
static std::string g_focus; // --focus: the property whose violations are reported (sequential world)
static Fingerprint run_plan_json(const js::Value& pj, std::string* trace)
{
    Fingerprint fp;
    std::string world = pj.gets("world", "seq");
    if (world == "seq")
    {
        SeqPlan plan;
        if (!plan.from_json(pj))
        {
            fp.v.check = "harness.bad_plan";
            return fp;
        }
        SeqOutcome o = run_seq(plan, trace, g_focus);
        fp.v         = o.v;
        fp.log_hash  = o.st.log_hash;
    }
    else
    {
        ConcOutcome o = conc_run_plan_json(pj, trace);
        fp.v          = o.v;
        fp.log_hash   = o.st.log_hash;
    }
    return fp;
}

static int cmd_replay(int argc, char** argv)
{
    const char* path = arg(argc, argv, "--plan");
    std::string text;
    js::Value   pj;
    if (!path || !js::read_file(path, text) || !js::parse(text, pj))
    {
        fprintf(stderr, "cannot read plan\n");
        return 2;
    }
    const js::Value* plan = pj.get("plan") ? pj.get("plan") : &pj;
    std::string      trace;
    Fingerprint      fp = run_plan_json(*plan, flag(argc, argv, "--trace") ? &trace : nullptr);
    if (!trace.empty())
        fputs(trace.c_str(), stderr);
    auto o = js::Value::object();
    o.set("violation", fp.v.any() ? viol_json(fp.v) : js::Value());
    char buf[32];
    snprintf(buf, sizeof buf, "%016llx", (unsigned long long)fp.log_hash);
    o.set("log_hash", buf);
    printf("REPLAY %s\n", o.dump().c_str());
    return fp.v.any() ? 1 : 0;
}

static int g_ctx_fd = -1;
// Executes the plan in a forked child; returns the violation class it ends in:
// the check id, "crash" for a sanitizer abort / signal, "hang" for a timeout, "" for a clean run.
static std::string classify_forked_raw(const js::Value& plan, std::string* props_out = nullptr, std::string* detail_out = nullptr)
{
    int fds[2];
    if (pipe(fds) != 0)
        return "harness.pipe";
    fflush(stdout);
    fflush(stderr);
    pid_t pid = fork();
    if (pid == 0)
    {
        close(fds[0]);
        // keep sanitizer reports of candidates out of the way
        int devnull = open("/dev/null", 1);
        if (devnull >= 0)
        {
            dup2(devnull, 2);
        }
        {
            // the same limits as a campaign worker (processor time first, wall time as a backstop), with the
            // default dispositions: the parent reads the terminating signal
            signal(SIGALRM, SIG_DFL);
            signal(SIGPROF, SIG_DFL);
            itimerval it{};
            it.it_value.tv_sec = plan.gets("world", "seq") == "seq" ? 10 : 20;
            setitimer(ITIMER_PROF, &it, nullptr);
            alarm((unsigned)it.it_value.tv_sec * 4);
        }
        // the child reports which call it is about to make: if it dies, the last tag says where
        g_ctx_fd         = fds[1];
        g_seq_call_hook  = [](const char* tag) {
            char    b[64];
            int     n = snprintf(b, sizeof b, "\x01%s\n", tag);
            ssize_t w = write(g_ctx_fd, b, (size_t)n);
            (void)w;
        };
        Fingerprint fp = run_plan_json(plan, nullptr);
        std::string s  = "\x02" + fp.v.check + "\n" + fp.v.props_str() + "\n" + fp.v.detail + "\n";
        ssize_t     w  = write(fds[1], s.data(), s.size());
        (void)w;
        _exit(0);
    }
    close(fds[1]);
    std::string buf;
    char        tmp[4096];
    ssize_t     n;
    while ((n = read(fds[0], tmp, sizeof tmp)) > 0)
        buf.append(tmp, (size_t)n);
    close(fds[0]);
    int status = 0;
    waitpid(pid, &status, 0);
    // last context tag written before the result (or before death)
    std::string last_tag;
    size_t      res = buf.find('\x02');
    {
        size_t pos = 0, lim = res == std::string::npos ? buf.size() : res;
        while (pos < lim)
        {
            size_t e = buf.find('\n', pos);
            if (e == std::string::npos || e > lim)
                break;
            if (buf[pos] == '\x01')
                last_tag = buf.substr(pos + 1, e - pos - 1);
            pos = e + 1;
        }
    }
    // a crash inside rr_cache's eviction is its own class: the victim was not a prior resident (C15 as well as C08)
    // ... and a crash inside a call that should have had no effect (a miss, a peek, a rejected insert,
    // an erase of an absent key) is C19's as well
    const std::string crash = last_tag == "rr_evict" ? "crash.rr_evict" : last_tag == "noeffect" ? "crash.noeffect" : "crash";
    if (WIFSIGNALED(status))
        return (WTERMSIG(status) == SIGALRM || WTERMSIG(status) == SIGPROF) ? "hang" : crash;
    if (WIFEXITED(status) && WEXITSTATUS(status) != 0)
        return crash;
    if (res == std::string::npos)
        return crash;
    buf      = buf.substr(res + 1);
    size_t a = buf.find('\n');
    if (a == std::string::npos)
        return crash;
    size_t b = buf.find('\n', a + 1);
    if (props_out && b != std::string::npos)
        *props_out = buf.substr(a + 1, b - a - 1);
    if (detail_out && b != std::string::npos)
        *detail_out = buf.substr(b + 1, buf.size() - b - 2);
    return buf.substr(0, a);
}

// C20 says that a cleared cache cannot be told from a freshly constructed one.  A run that dies after a
// clear() is C20's (as well as C08's) exactly when the calls that follow the clear() do not die on a fresh
// instance (same configuration, same clock readings): that is decided by executing that suffix, not guessed
// from where the run died.  Only asked for when the focus is C20, so that C08's own classes stay as they are.
static std::string classify_forked(const js::Value& plan, std::string* props_out = nullptr, std::string* detail_out = nullptr)
{
    std::string c = classify_forked_raw(plan, props_out, detail_out);
    if (g_focus != "C20" || c.rfind("crash", 0) != 0 || plan.gets("world", "seq") != "seq")
        return c;
    SeqPlan sp;
    if (!sp.from_json(plan))
        return c;
    sp.normalize();
    if (sp.cfg.cont == Cont::rr)
        return c; // the victim stream of the suffix would not line up
    long last = -1;
    for (size_t i = 0; i < sp.steps.size(); ++i)
        if (sp.steps[i].op.kind == OpKind::clear)
            last = (long)i;
    if (last < 0)
        return c;
    SeqPlan suf = sp;
    for (long i = 0; i <= last; ++i)
    {
        suf.clock_start += sp.steps[(size_t)i].adv_ns;
        if (sp.steps[(size_t)i].op.kind == OpKind::update_ttl)
            suf.cfg.ttl_ms = sp.steps[(size_t)i].op.ttl_ms;
    }
    suf.steps.erase(suf.steps.begin(), suf.steps.begin() + last + 1);
    std::string s = classify_forked_raw(suf.to_json());
    if (s.rfind("crash", 0) == 0 || s == "hang" || s.rfind("harness", 0) == 0)
        return c;
    if (props_out)
        *props_out = "C08,C20";
    return "crash.after_clear";
}

static int cmd_classify(int argc, char** argv)
{
    const char* path = arg(argc, argv, "--plan");
    std::string text;
    js::Value   pj;
    if (!path || !js::read_file(path, text) || !js::parse(text, pj))
        return 2;
    const js::Value* plan = pj.get("plan") ? pj.get("plan") : &pj;
    std::string      props, detail;
    std::string      c = classify_forked(*plan, &props, &detail);
    auto             o = js::Value::object();
    o.set("class", c).set("props", props).set("detail", detail);
    printf("CLASS %s\n", o.dump().c_str());
    return 0;
}

static int cmd_shrink(int argc, char** argv)
{
    const char* path   = arg(argc, argv, "--plan");
    const char* out    = arg(argc, argv, "--out");
    std::string want   = arg(argc, argv, "--check", "");
    size_t      budget = (size_t)atoi(arg(argc, argv, "--budget", "1500"));
    std::string text;
    js::Value   pj;
    if (!path || !out || !js::read_file(path, text) || !js::parse(text, pj))
        return 2;
    const js::Value* planp = pj.get("plan") ? pj.get("plan") : &pj;
    js::Value        plan  = *planp;
    std::string      world = plan.gets("world", "seq");
    size_t           used  = 0;
    if (classify_forked(plan) != want)
    {
        fprintf(stderr, "shrink: plan does not reproduce class %s\n", want.c_str());
        return 3;
    }
    if (world == "seq")
    {
        SeqPlan sp;
        sp.from_json(plan);
        sp.normalize();
        used = shrink_seq(sp, [&](const SeqPlan& c) { return classify_forked(c.to_json()) == want; }, budget);
        plan = sp.to_json();
    }
    else
    {
        used = conc_shrink_json(plan, [&](const js::Value& c) { return classify_forked(c) == want; }, budget);
    }
    std::string props, detail;
    std::string cls = classify_forked(plan, &props, &detail);
    auto        o   = js::Value::object();
    o.set("class", cls).set("props", props).set("detail", detail).set("candidates", (uint64_t)used);
    o.set("plan", plan);
    js::write_file(out, o.dump() + "\n");
    printf("SHRUNK %s\n", o.dump().c_str());
    return cls == want ? 0 : 3;
}

#include <sys/resource.h>
int main(int argc, char** argv)
{
    {
        // a sanitizer / debug-mode abort must be cheap: the orchestrator restarts us
        rlimit rl{0, 0};
        setrlimit(RLIMIT_CORE, &rl);
    }
    if (argc < 2)
    {
        fprintf(stderr, "usage: sim run|genplan|replay|classify|shrink ...\n");
        return 2;
    }
    std::string cmd = argv[1];
    g_focus         = arg(argc, argv, "--focus", "");
    if (cmd == "run")
        return cmd_run(argc, argv);
    if (cmd == "genplan")
        return cmd_genplan(argc, argv);
    if (cmd == "replay")
        return cmd_replay(argc, argv);
    if (cmd == "classify")
        return cmd_classify(argc, argv);
    if (cmd == "shrink")
        return cmd_shrink(argc, argv);
    if (cmd == "pairs-total")
    {
        printf("%llu\n", (unsigned long long)conc_pairs_total());
        return 0;
    }
    fprintf(stderr, "unknown command %s\n", cmd.c_str());
    return 2;
}
