#include "box_impl.hpp"
#include "cappuccino/rr_cache.hpp"
namespace sim
{
#define T_OF(K, V, TS) cappuccino::rr_cache<K, V, TS>
SIM_BOX_FACTORY(make_rr, Cont::rr, T_OF)
} // namespace sim
