// World "conc": several clients on one thread_safe::yes container under the
// seeded scheduler; linearizability against the thread_safe::no twin (C06) and,
// in the TSan build, happens-before race analysis (C07).
#pragma once
#include "common.hpp"
#include "seq.hpp"

#include <functional>

namespace sim
{
struct ConcOutcome
{
    Violation v;
    RunStats  st;
    uint64_t  trace_hash{0};
    bool      must_exit{false}; // clients are stuck (deadlock / budget): the process cannot run another plan
    uint64_t  plan_hash{0};
};

// world: "conc" (random multi-client workloads) or "pairs" (the complete method-pair matrix)
js::Value   conc_genplan(const std::string& world, const std::string& prop, uint64_t seed, uint64_t idx, bool thorough);
uint64_t    conc_pairs_total(); // number of plans in the pair matrix
ConcOutcome conc_run_plan_json(const js::Value& plan, std::string* trace);
size_t      conc_shrink_json(js::Value& plan, const std::function<bool(const js::Value&)>& pred, size_t budget);
bool        conc_is_tsan_build();
} // namespace sim
